//! The harness's own well-formedness scan of the whole stored ledger (C05; reused by C50).
//!
//! Everything is re-derived from raw partitions (`list_partition_keys` + `list_raw_values_from_db_key`),
//! the TypeInfo substates and the blueprint definitions stored in the package nodes:
//!
//!  1. ownership forest: every internal (non-global) node is named as `Own` by exactly one stored
//!     substate, no global node is owned, every owned node exists, the owner chain of every
//!     internal node ends at a global node;
//!  2. stored substates reference (`Reference`) only global nodes, and those exist
//!     (the kernel's rule: `ProcessSubstateError::NonGlobalRefNotAllowed` for a store write,
//!     `PersistNodeError::ContainsNonGlobalRef` when a heap node is persisted; there is no
//!     exception — direct-access references to vaults live in manifests / call frames only);
//!  3. every node has a TypeInfo substate that is `Object` or `KeyValueStore` (never a reservation
//!     or phantom), its global/owned flag agrees with the address, its entity-type byte is the one
//!     the blueprint determines (table below, written from the address documentation — not
//!     `id_allocation.rs`), inner blueprints have an existing outer object of the declared outer
//!     blueprint, no object of a transient blueprint is stored, every declared field whose
//!     condition holds exists and no other partition / field exists;
//!  4. every field / KV / index / sorted-index substate decodes as its system wrapper and its key
//!     and payload validate against the schema the blueprint (or KV store) declares, including the
//!     ownership rules of the collection (`allow_ownership`);
//!  5. role assignment: owner rule and every role rule within the depth / node limits, role keys
//!     well-formed, not reserved (`_…`), not in the RoleAssignment module's own space, and — for
//!     blueprints that declare a static role table — declared by the blueprint of that module.

use radix_engine::object_modules::role_assignment::{RoleAssignmentAccessRuleEntryPayload, RoleAssignmentOwnerFieldPayload};
use radix_engine::system::system_db_reader::SystemDatabaseReader;
use radix_engine::system::system_substates::{FieldSubstate, IndexEntrySubstate, KeyValueEntrySubstate, SortedIndexEntrySubstate};
use radix_engine::system::type_info::TypeInfoSubstate;
use radix_blueprint_schema_init::{BlueprintCollectionSchema, Condition, FieldTransience};
use scrypto_test::prelude::*;
use std::collections::{BTreeMap, BTreeSet};

#[derive(Clone, Debug)]
pub struct Problem {
    /// class of the problem (no case data)
    pub class: &'static str,
    pub detail: String,
}

#[derive(Default)]
pub struct LedgerScan {
    pub problems: Vec<Problem>,
    pub nodes: usize,
    pub internal_nodes: BTreeSet<NodeId>,
    pub substates: usize,
    /// owned node → (owner node, partition, db sort key)
    pub owner: BTreeMap<NodeId, (NodeId, u8, Vec<u8>)>,
    /// object node → blueprint
    pub blueprint: BTreeMap<NodeId, BlueprintId>,
    pub kv_stores: BTreeSet<NodeId>,
}

impl LedgerScan {
    fn add(&mut self, class: &'static str, detail: String) {
        if self.problems.len() < 20 {
            self.problems.push(Problem { class, detail });
        }
    }
    pub fn children_of(&self, parent: &NodeId) -> Vec<NodeId> {
        self.owner.iter().filter(|(_, (o, _, _))| o == parent).map(|(c, _)| *c).collect()
    }
}

pub fn hexn(n: &NodeId) -> String {
    hex::encode(n.0)
}

/// The entity types a stored object of `bp` may carry.
pub fn allowed_entity_types(bp: &BlueprintId, global: bool) -> Vec<EntityType> {
    let p = bp.package_address;
    let n = bp.blueprint_name.as_str();
    if !global {
        return match (p, n) {
            (RESOURCE_PACKAGE, "FungibleVault") => vec![EntityType::InternalFungibleVault],
            (RESOURCE_PACKAGE, "NonFungibleVault") => vec![EntityType::InternalNonFungibleVault],
            _ => vec![EntityType::InternalGenericComponent],
        };
    }
    match (p, n) {
        (PACKAGE_PACKAGE, "Package") => vec![EntityType::GlobalPackage],
        (RESOURCE_PACKAGE, "FungibleResourceManager") => vec![EntityType::GlobalFungibleResourceManager],
        (RESOURCE_PACKAGE, "NonFungibleResourceManager") => vec![EntityType::GlobalNonFungibleResourceManager],
        (CONSENSUS_MANAGER_PACKAGE, "ConsensusManager") => vec![EntityType::GlobalConsensusManager],
        (CONSENSUS_MANAGER_PACKAGE, "Validator") => vec![EntityType::GlobalValidator],
        (ACCESS_CONTROLLER_PACKAGE, "AccessController") => vec![EntityType::GlobalAccessController],
        // accounts and identities also live at addresses derived from a public key
        (ACCOUNT_PACKAGE, "Account") => vec![
            EntityType::GlobalAccount,
            EntityType::GlobalPreallocatedSecp256k1Account,
            EntityType::GlobalPreallocatedEd25519Account,
        ],
        (IDENTITY_PACKAGE, "Identity") => vec![
            EntityType::GlobalIdentity,
            EntityType::GlobalPreallocatedSecp256k1Identity,
            EntityType::GlobalPreallocatedEd25519Identity,
        ],
        (POOL_PACKAGE, "OneResourcePool") => vec![EntityType::GlobalOneResourcePool],
        (POOL_PACKAGE, "TwoResourcePool") => vec![EntityType::GlobalTwoResourcePool],
        (POOL_PACKAGE, "MultiResourcePool") => vec![EntityType::GlobalMultiResourcePool],
        (LOCKER_PACKAGE, "AccountLocker") => vec![EntityType::GlobalAccountLocker],
        // the tracker is created once, by genesis, at its own well-known address
        (TRANSACTION_TRACKER_PACKAGE, "TransactionTracker") => vec![EntityType::GlobalTransactionTracker],
        _ => vec![EntityType::GlobalGenericComponent],
    }
}

#[derive(Clone, Copy, PartialEq, Eq, Debug)]
enum Part {
    Fields,
    Kv(u8),
    Index(u8),
    Sorted(u8),
}

fn module_of(partition: u8, modules: Option<&IndexMap<AttachedModuleId, BlueprintVersion>>) -> Option<(ModuleId, u8)> {
    if partition >= 64 {
        return Some((ModuleId::Main, partition - 64));
    }
    let modules = modules?;
    match partition {
        2 if modules.contains_key(&AttachedModuleId::Metadata) => Some((ModuleId::Metadata, 0)),
        3 | 4 if modules.contains_key(&AttachedModuleId::Royalty) => Some((ModuleId::Royalty, partition - 3)),
        5 | 6 if modules.contains_key(&AttachedModuleId::RoleAssignment) => Some((ModuleId::RoleAssignment, partition - 5)),
        _ => None,
    }
}

fn module_blueprint(m: ModuleId, main: &BlueprintId) -> BlueprintId {
    match m {
        ModuleId::Main => main.clone(),
        ModuleId::Metadata => BlueprintId::new(&METADATA_MODULE_PACKAGE, METADATA_BLUEPRINT),
        ModuleId::Royalty => BlueprintId::new(&ROYALTY_MODULE_PACKAGE, COMPONENT_ROYALTY_BLUEPRINT),
        ModuleId::RoleAssignment => BlueprintId::new(&ROLE_ASSIGNMENT_MODULE_PACKAGE, ROLE_ASSIGNMENT_BLUEPRINT),
    }
}

fn describe_partition(def: &BlueprintDefinition, offset: u8) -> Option<Part> {
    let st = &def.interface.state;
    if let Some((PartitionDescription::Logical(o), _)) = &st.fields {
        if o.0 == offset {
            return Some(Part::Fields);
        }
    }
    for (i, (d, schema)) in st.collections.iter().enumerate() {
        if let PartitionDescription::Logical(o) = d {
            if o.0 == offset {
                return Some(match schema {
                    BlueprintCollectionSchema::KeyValueStore(_) => Part::Kv(i as u8),
                    BlueprintCollectionSchema::Index(_) => Part::Index(i as u8),
                    BlueprintCollectionSchema::SortedIndex(_) => Part::Sorted(i as u8),
                });
            }
        }
    }
    None
}

fn rule_within_limits(rule: &AccessRule) -> Result<(), String> {
    fn walk(n: &CompositeRequirement, depth: usize, count: &mut usize) -> Result<(), String> {
        if depth > MAX_ACCESS_RULE_DEPTH {
            return Err(format!("depth {} > {}", depth, MAX_ACCESS_RULE_DEPTH));
        }
        *count += 1;
        if *count > MAX_COMPOSITE_REQUIREMENTS {
            return Err(format!("more than {} nodes", MAX_COMPOSITE_REQUIREMENTS));
        }
        match n {
            CompositeRequirement::BasicRequirement(_) => Ok(()),
            CompositeRequirement::AnyOf(v) | CompositeRequirement::AllOf(v) => {
                for c in v {
                    walk(c, depth + 1, count)?;
                }
                Ok(())
            }
        }
    }
    match rule {
        AccessRule::AllowAll | AccessRule::DenyAll => Ok(()),
        AccessRule::Protected(n) => walk(n, 0, &mut 0),
    }
}

fn valid_role_name(s: &str) -> bool {
    let mut it = s.chars();
    match it.next() {
        Some(c) if c.is_ascii_alphabetic() || c == '_' => it.all(|c| c.is_ascii_alphanumeric() || c == '_'),
        _ => false,
    }
}

/// Roles a blueprint declares (None: the blueprint has no static role table of its own).
fn declared_roles<D: SubstateDatabase>(db: &D, bp: &BlueprintId) -> Option<BTreeSet<String>> {
    let key = BlueprintVersionKey::new_default(bp.blueprint_name.as_str());
    let entry = db.get_substate::<PackageBlueprintVersionAuthConfigEntrySubstate>(
        bp.package_address.as_node_id(),
        MAIN_BASE_PARTITION.at_offset(PACKAGE_AUTH_TEMPLATE_PARTITION_OFFSET).unwrap(),
        SubstateKey::Map(scrypto_encode(&key).unwrap()),
    )?;
    let cfg: AuthConfig = entry.into_value()?.fully_update_and_into_latest_version();
    match cfg.method_auth {
        MethodAuthTemplate::AllowAll => None,
        MethodAuthTemplate::StaticRoleDefinition(s) => match s.roles {
            RoleSpecification::Normal(r) => Some(r.keys().map(|k| k.key.clone()).collect()),
            RoleSpecification::UseOuter => None,
        },
    }
}

pub struct ScanOptions<'a> {
    /// kept for callers that only need the ownership facts: `Some(empty)` skips nothing any more
    /// (validation is per node and cached by `Facts`), the field is ignored
    pub validate_only: Option<&'a BTreeSet<NodeId>>,
}

/// Everything the scan learns from one node alone.
#[derive(Clone, Default)]
pub struct NodeFacts {
    pub parts: Vec<PartitionNumber>,
    pub info: Option<TypeInfoSubstate>,
    /// (partition, db sort key, owned node)
    pub owns: Vec<(u8, Vec<u8>, NodeId)>,
    /// (partition, referenced global node)
    pub refs: Vec<(u8, NodeId)>,
    pub problems: Vec<Problem>,
    pub substates: usize,
}

impl NodeFacts {
    fn add(&mut self, class: &'static str, detail: String) {
        if self.problems.len() < 20 {
            self.problems.push(Problem { class, detail });
        }
    }
}

pub type Facts = BTreeMap<NodeId, NodeFacts>;

fn type_info_of<D: SubstateDatabase>(db: &D, node: &NodeId) -> Option<TypeInfoSubstate> {
    let raw = db.get_raw_substate_by_db_key(
        &SpreadPrefixKeyMapper::to_db_partition_key(node, TYPE_INFO_FIELD_PARTITION),
        &SpreadPrefixKeyMapper::to_db_sort_key(&SubstateKey::Field(0)),
    )?;
    scrypto_decode::<TypeInfoSubstate>(&raw).ok()
}

fn node_partitions(db: &InMemorySubstateDatabase) -> BTreeMap<NodeId, Vec<PartitionNumber>> {
    let mut partitions: BTreeMap<NodeId, Vec<PartitionNumber>> = BTreeMap::new();
    for pk in db.list_partition_keys() {
        let (node, pn) = SpreadPrefixKeyMapper::from_db_partition_key(&pk);
        partitions.entry(node).or_default().push(pn);
    }
    partitions
}

/// All node-local clauses for one node.
fn scan_node(db: &InMemorySubstateDatabase, reader: &SystemDatabaseReader<InMemorySubstateDatabase>, node: &NodeId, parts: &Vec<PartitionNumber>) -> NodeFacts {
    let mut f = NodeFacts { parts: parts.clone(), ..Default::default() };
    let Some(et0) = node.entity_type() else {
        f.add("node id with an unknown entity-type byte", format!("node {}", hexn(node)));
        return f;
    };
    let raw = db.get_raw_substate_by_db_key(
        &SpreadPrefixKeyMapper::to_db_partition_key(node, TYPE_INFO_FIELD_PARTITION),
        &SpreadPrefixKeyMapper::to_db_sort_key(&SubstateKey::Field(0)),
    );
    match raw {
        None => f.add("stored node without a TypeInfo substate", format!("node {} ({:?}) partitions {:?}", hexn(node), et0, parts)),
        Some(raw) => match scrypto_decode::<TypeInfoSubstate>(&raw) {
            Err(_) => f.add("TypeInfo substate does not decode", format!("node {}: {}", hexn(node), hex::encode(&raw))),
            Ok(info) => {
                match &info {
                    TypeInfoSubstate::GlobalAddressReservation(a) => f.add("a global address reservation is stored", format!("node {} reserves {:?}", hexn(node), a)),
                    TypeInfoSubstate::GlobalAddressPhantom(p) => f.add("a global address phantom is stored", format!("node {} for {:?}", hexn(node), p.blueprint_id)),
                    _ => {}
                }
                f.info = Some(info);
            }
        },
    }
    let self_bp: Option<BlueprintId> = match &f.info {
        Some(TypeInfoSubstate::Object(o)) => Some(o.blueprint_info.blueprint_id.clone()),
        _ => None,
    };
    let self_bp = self_bp.as_ref();
    let info = f.info.clone();
    let info = info.as_ref();
    
    let et = node.entity_type();

    // ---- node-level type clauses
    let mut object: Option<(&ObjectInfo, std::rc::Rc<BlueprintDefinition>)> = None;
    match info {
        Some(TypeInfoSubstate::Object(o)) => {
            let bp = &o.blueprint_info.blueprint_id;
            if o.is_global() != node.is_global() {
                f.add(
                    "TypeInfo global/owned flag disagrees with the address",
                    format!("node {} ({:?}) has object_type {:?}", hexn(node), et, o.object_type),
                );
            }
            if let Some(et) = et {
                let allowed = allowed_entity_types(bp, node.is_global());
                if !allowed.contains(&et) {
                    f.add(
                        "entity type of the address does not match the blueprint stored there",
                        format!("node {} has entity type {:?} but holds an object of {:?} (expected one of {:?})", hexn(node), et, bp, allowed),
                    );
                }
            }
            match reader.get_blueprint_definition(bp) {
                Err(e) => f.add("object of a blueprint that is not defined in its package", format!("node {} of {:?}: {:?}", hexn(node), bp, e)),
                Ok(def) => {
                    if def.interface.is_transient {
                        f.add("object of a transient blueprint is stored", format!("node {} of {:?}", hexn(node), bp));
                    }
                    match (&def.interface.blueprint_type, &o.blueprint_info.outer_obj_info) {
                        (BlueprintType::Outer, OuterObjectInfo::None) => {}
                        (BlueprintType::Inner { outer_blueprint }, OuterObjectInfo::Some { outer_object }) => {
                            match type_info_of(db, outer_object.as_node_id()).as_ref() {
                                Some(TypeInfoSubstate::Object(oo))
                                    if oo.blueprint_info.blueprint_id == BlueprintId::new(&bp.package_address, outer_blueprint.as_str()) => {}
                                other => f.add(
                                    "inner object whose outer object is missing or of the wrong blueprint",
                                    format!("node {} of {:?}: outer {:?} is {:?}", hexn(node), bp, outer_object, other.map(|_| "another kind of node")),
                                ),
                            }
                        }
                        (t, oi) => f.add(
                            "outer-object info disagrees with the blueprint type",
                            format!("node {} of {:?}: blueprint type {:?}, outer info {:?}", hexn(node), bp, t, oi),
                        ),
                    }
                    object = Some((o, def));
                }
            }
        }
        Some(TypeInfoSubstate::KeyValueStore(_)) => {
            if et != Some(EntityType::InternalKeyValueStore) {
                f.add(
                    "entity type of the address does not match the blueprint stored there",
                    format!("node {} has entity type {:?} but holds a key-value store", hexn(node), et),
                );
            }
        }
        _ => {}
    }
    if et == Some(EntityType::InternalKeyValueStore) && !matches!(info, Some(TypeInfoSubstate::KeyValueStore(_)) | None) {
        f.add(
            "entity type of the address does not match the blueprint stored there",
            format!("node {} has entity type InternalKeyValueStore but its TypeInfo is not a key-value store", hexn(node)),
        );
    }

    // expected fields
    let mut expected_fields: BTreeSet<(u8, u8)> = BTreeSet::new(); // (partition, field)
    let mut excluded_fields: BTreeSet<(u8, u8)> = BTreeSet::new();
    if let Some((o, def)) = &object {
        let modules = match &o.object_type {
            ObjectType::Global { modules } => Some(modules),
            ObjectType::Owned => None,
        };
        let mut mods: Vec<(ModuleId, std::rc::Rc<BlueprintDefinition>, u8)> = vec![(ModuleId::Main, def.clone(), 64)];
        if let Some(ms) = modules {
            for (m, _) in ms.iter() {
                let mid: ModuleId = (*m).into();
                let base = match mid {
                    ModuleId::Metadata => 2,
                    ModuleId::Royalty => 3,
                    ModuleId::RoleAssignment => 5,
                    ModuleId::Main => 64,
                };
                match reader.get_blueprint_definition(&module_blueprint(mid, &o.blueprint_info.blueprint_id)) {
                    Ok(d) => mods.push((mid, d, base)),
                    Err(e) => f.add("object of a blueprint that is not defined in its package", format!("module {:?} of node {}: {:?}", mid, hexn(node), e)),
                }
            }
            if !ms.contains_key(&AttachedModuleId::RoleAssignment) || !ms.contains_key(&AttachedModuleId::Metadata) {
                f.add("global object without role-assignment or metadata module", format!("node {}: modules {:?}", hexn(node), ms));
            }
        }
        for (mid, d, base) in &mods {
            if let Some((PartitionDescription::Logical(off), fields)) = &d.interface.state.fields {
                for (i, f) in fields.iter().enumerate() {
                    let present = match (&f.transience, &f.condition) {
                        (FieldTransience::TransientStatic { .. }, _) => false,
                        (_, Condition::Always) => true,
                        (_, Condition::IfFeature(feat)) => *mid == ModuleId::Main && o.blueprint_info.features.contains(feat.as_str()),
                        (_, Condition::IfOuterFeature(feat)) => match &o.blueprint_info.outer_obj_info {
                            OuterObjectInfo::Some { outer_object } => match type_info_of(db, outer_object.as_node_id()).as_ref() {
                                Some(TypeInfoSubstate::Object(oo)) => oo.blueprint_info.features.contains(feat.as_str()),
                                _ => false,
                            },
                            OuterObjectInfo::None => false,
                        },
                    };
                    if present {
                        expected_fields.insert((base + off.0, i as u8));
                    } else {
                        excluded_fields.insert((base + off.0, i as u8));
                    }
                }
            }
        }
    }

    // ---- partitions
    for pn in parts {
        let pk = SpreadPrefixKeyMapper::to_db_partition_key(node, *pn);
        // what is this partition?
        #[derive(Debug)]
        enum Kind {
            TypeInfo,
            Schemas,
            Boot,
            KvStore,
            Object(ModuleId, Part, BlueprintId),
            Unknown,
        }
        let kind = if *pn == TYPE_INFO_FIELD_PARTITION {
            Kind::TypeInfo
        } else if *pn == SCHEMAS_PARTITION {
            Kind::Schemas
        } else if (*pn == BOOT_LOADER_PARTITION || *pn == PROTOCOL_UPDATE_STATUS_PARTITION) && node == TRANSACTION_TRACKER.as_node_id() {
            Kind::Boot
        } else {
            match info {
                Some(TypeInfoSubstate::KeyValueStore(_)) if *pn == MAIN_BASE_PARTITION => Kind::KvStore,
                Some(TypeInfoSubstate::Object(o)) => {
                    let modules = match &o.object_type {
                        ObjectType::Global { modules } => Some(modules),
                        ObjectType::Owned => None,
                    };
                    match module_of(pn.0, modules) {
                        Some((mid, off)) => {
                            let mbp = module_blueprint(mid, &o.blueprint_info.blueprint_id);
                            match reader.get_blueprint_definition(&mbp).ok().and_then(|d| describe_partition(&d, off)) {
                                Some(part) => Kind::Object(mid, part, mbp),
                                None => Kind::Unknown,
                            }
                        }
                        None => Kind::Unknown,
                    }
                }
                _ => Kind::Unknown,
            }
        };
        if matches!(kind, Kind::Unknown) && info.is_some() {
            f.add(
                "partition that the node's blueprint does not declare",
                format!("node {} ({:?}) partition {}", hexn(node), self_bp, pn.0),
            );
        }

        // may substates of this partition own nodes at all? (from the declarations, not the validator)
        let ownership_allowed = match &kind {
            Kind::KvStore => match info {
                Some(TypeInfoSubstate::KeyValueStore(k)) => k.generic_substitutions.allow_ownership,
                _ => true,
            },
            Kind::Object(_, part, mbp) => match part {
                Part::Fields => true,
                Part::Kv(c) | Part::Index(c) | Part::Sorted(c) => reader
                    .get_blueprint_definition(mbp)
                    .ok()
                    .and_then(|d| d.interface.state.collections.get(*c as usize).map(|(_, sch)| match sch {
                        BlueprintCollectionSchema::KeyValueStore(x) | BlueprintCollectionSchema::Index(x) | BlueprintCollectionSchema::SortedIndex(x) => x.allow_ownership,
                    }))
                    .unwrap_or(true),
            },
            Kind::TypeInfo | Kind::Schemas | Kind::Boot => false,
            Kind::Unknown => true,
        };
        // resolve schemas once per partition
        let mut key_schema = None;
        let mut value_schema = None;
        let mut type_target = None;
        if true {
            match &kind {
                Kind::KvStore => match reader.get_kv_store_type_target(node) {
                    Ok(t) => {
                        key_schema = reader.get_kv_store_payload_schema(&t, KeyOrValue::Key).ok();
                        value_schema = reader.get_kv_store_payload_schema(&t, KeyOrValue::Value).ok();
                        if key_schema.is_none() || value_schema.is_none() {
                            f.add("schema of a key-value store cannot be resolved", format!("node {}", hexn(node)));
                        }
                    }
                    Err(e) => f.add("schema of a key-value store cannot be resolved", format!("node {}: {:?}", hexn(node), e)),
                },
                Kind::Object(mid, part, _) => match reader.get_blueprint_type_target(node, *mid) {
                    Ok(t) => {
                        let ids = match part {
                            Part::Fields => None,
                            Part::Kv(c) => Some((
                                BlueprintPayloadIdentifier::KeyValueEntry(*c, KeyOrValue::Key),
                                BlueprintPayloadIdentifier::KeyValueEntry(*c, KeyOrValue::Value),
                            )),
                            Part::Index(c) => Some((
                                BlueprintPayloadIdentifier::IndexEntry(*c, KeyOrValue::Key),
                                BlueprintPayloadIdentifier::IndexEntry(*c, KeyOrValue::Value),
                            )),
                            Part::Sorted(c) => Some((
                                BlueprintPayloadIdentifier::SortedIndexEntry(*c, KeyOrValue::Key),
                                BlueprintPayloadIdentifier::SortedIndexEntry(*c, KeyOrValue::Value),
                            )),
                        };
                        if let Some((k, v)) = ids {
                            key_schema = reader.get_blueprint_payload_schema(&t, &k).ok();
                            value_schema = reader.get_blueprint_payload_schema(&t, &v).ok();
                            if key_schema.is_none() || value_schema.is_none() {
                                f.add("schema of a collection cannot be resolved", format!("node {} partition {} {:?}", hexn(node), pn.0, part));
                            }
                        }
                        type_target = Some(t);
                    }
                    Err(e) => f.add("schema of an object cannot be resolved", format!("node {} module {:?}: {:?}", hexn(node), mid, e)),
                },
                _ => {}
            }
        }

        for (sort_key, value) in db.list_raw_values_from_db_key(&pk, None) {
            f.substates += 1;
            // ---- clauses 1 and 2: what the substate owns and references
            match IndexedScryptoValue::from_slice(&value) {
                Err(e) => f.add(
                    "stored substate is not a valid SBOR value",
                    format!("node {} partition {} key {}: {:?}", hexn(node), pn.0, hex::encode(&sort_key.0), e),
                ),
                Ok(v) => {
                    if !ownership_allowed && !v.owned_nodes().is_empty() {
                        f.add(
                            "owned node stored where the declaration does not allow ownership",
                            format!("node {} ({:?}) partition {} key {} owns {:?}", hexn(node), self_bp, pn.0, hex::encode(&sort_key.0), v.owned_nodes().iter().map(hexn).collect::<Vec<_>>()),
                        );
                    }
                    for o in v.owned_nodes() {
                        f.owns.push((pn.0, sort_key.0.clone(), *o));
                    }
                    for r in v.references() {
                        if !r.is_global() {
                            f.add(
                                "stored substate references a non-global node",
                                format!(
                                    "node {} ({:?}) partition {} key {} references internal node {}",
                                    hexn(node),
                                    self_bp,
                                    pn.0,
                                    hex::encode(&sort_key.0),
                                    hexn(r)
                                ),
                            );
                        } else {
                            f.refs.push((pn.0, *r));
                        }
                    }
                }
            }
            if false {
                // field presence is cheap: keep it for every node
                if let Kind::Object(_, Part::Fields, _) = &kind {
                    let f = SpreadPrefixKeyMapper::field_from_db_sort_key(&sort_key);
                    expected_fields.remove(&(pn.0, f));
                }
                continue;
            }
            // ---- clauses 3–5: typed
            match &kind {
                Kind::TypeInfo => {
                    if sort_key != SpreadPrefixKeyMapper::to_db_sort_key(&SubstateKey::Field(0)) {
                        f.add("unexpected substate in the TypeInfo partition", format!("node {} key {}", hexn(node), hex::encode(&sort_key.0)));
                    }
                }
                Kind::Schemas => {
                    let k = SpreadPrefixKeyMapper::map_from_db_sort_key(&sort_key);
                    let hash = scrypto_decode::<SchemaHash>(&k);
                    let entry = scrypto_decode::<KeyValueEntrySubstate<VersionedScryptoSchema>>(&value);
                    match (hash, entry) {
                        (Ok(h), Ok(e)) => {
                            if let Some(schema) = e.into_value() {
                                if schema.generate_schema_hash() != h {
                                    f.add("stored schema is filed under a hash that is not its own", format!("node {} key {:?}", hexn(node), h));
                                }
                            }
                        }
                        _ => f.add("schema partition entry does not decode", format!("node {} key {}", hexn(node), hex::encode(&sort_key.0))),
                    }
                }
                Kind::Boot | Kind::Unknown => {}
                Kind::KvStore => {
                    let k = SpreadPrefixKeyMapper::map_from_db_sort_key(&sort_key);
                    if let Some(ks) = &key_schema {
                        if let Err(e) = reader.validate_payload(&k, ks, KEY_VALUE_STORE_PAYLOAD_MAX_DEPTH) {
                            f.add("key-value store key does not conform to the store's key schema", format!("store {} key {}: {:?}", hexn(node), hex::encode(&k), e.error));
                        }
                    }
                    match scrypto_decode::<KeyValueEntrySubstate<ScryptoValue>>(&value) {
                        Err(e) => f.add("key-value store entry does not decode as KeyValueEntrySubstate", format!("store {} key {}: {:?}", hexn(node), hex::encode(&k), e)),
                        Ok(entry) => {
                            if let (Some(v), Some(vs)) = (entry.into_value(), &value_schema) {
                                let payload = scrypto_encode(&v).unwrap();
                                if let Err(e) = reader.validate_payload(&payload, vs, KEY_VALUE_STORE_PAYLOAD_MAX_DEPTH) {
                                    f.add(
                                        "key-value store value does not conform to the store's value schema",
                                        format!("store {} key {} value {}: {:?}", hexn(node), hex::encode(&k), hex::encode(&payload), e.error),
                                    );
                                }
                            }
                        }
                    }
                }
                Kind::Object(mid, part, mbp) => {
                    let Some(t) = &type_target else { continue };
                    match part {
                        Part::Fields => {
                            let fi = SpreadPrefixKeyMapper::field_from_db_sort_key(&sort_key);
                            expected_fields.remove(&(pn.0, fi));
                            if excluded_fields.contains(&(pn.0, fi)) {
                                f.add("field stored although its condition does not hold", format!("node {} {:?} field {}", hexn(node), mbp, fi));
                            }
                            match scrypto_decode::<FieldSubstate<ScryptoValue>>(&value) {
                                Err(e) => f.add("field does not decode as FieldSubstate", format!("node {} {:?} field {}: {:?}", hexn(node), mbp, fi, e)),
                                Ok(fs) => {
                                    let payload = scrypto_encode(fs.payload()).unwrap();
                                    match reader.get_blueprint_payload_schema(t, &BlueprintPayloadIdentifier::Field(fi)) {
                                        Err(e) => f.add("field that the blueprint does not declare", format!("node {} {:?} field {}: {:?}", hexn(node), mbp, fi, e)),
                                        Ok(schema) => {
                                            if let Err(e) = reader.validate_payload(&payload, &schema, BLUEPRINT_PAYLOAD_MAX_DEPTH) {
                                                f.add(
                                                    "field value does not conform to the blueprint's schema",
                                                    format!("node {} {:?} field {} payload {}: {:?}", hexn(node), mbp, fi, hex::encode(&payload), e.error),
                                                );
                                            }
                                        }
                                    }
                                    if *mid == ModuleId::RoleAssignment && fi == 0 {
                                        match scrypto_decode::<RoleAssignmentOwnerFieldPayload>(&payload) {
                                            Ok(p) => {
                                                let rule = p.fully_update_and_into_latest_version().owner_role_entry.rule;
                                                if let Err(e) = rule_within_limits(&rule) {
                                                    f.add("owner role rule exceeds the access-rule limits", format!("node {}: {}", hexn(node), e));
                                                }
                                            }
                                            Err(e) => f.add("owner role field does not decode", format!("node {}: {:?}", hexn(node), e)),
                                        }
                                    }
                                }
                            }
                        }
                        Part::Kv(_) | Part::Index(_) | Part::Sorted(_) => {
                            let k: Vec<u8> = match part {
                                Part::Sorted(_) => SpreadPrefixKeyMapper::sorted_from_db_sort_key(&sort_key).1,
                                _ => SpreadPrefixKeyMapper::map_from_db_sort_key(&sort_key),
                            };
                            if let Some(ks) = &key_schema {
                                if let Err(e) = reader.validate_payload(&k, ks, BLUEPRINT_PAYLOAD_MAX_DEPTH) {
                                    f.add(
                                        "collection key does not conform to the blueprint's schema",
                                        format!("node {} {:?} {:?} key {}: {:?}", hexn(node), mbp, part, hex::encode(&k), e.error),
                                    );
                                }
                            }
                            let payload: Option<Vec<u8>> = match part {
                                Part::Kv(_) => match scrypto_decode::<KeyValueEntrySubstate<ScryptoValue>>(&value) {
                                    Ok(e) => e.into_value().map(|v| scrypto_encode(&v).unwrap()),
                                    Err(e) => {
                                        f.add("collection entry does not decode as its system wrapper", format!("node {} {:?} {:?}: {:?}", hexn(node), mbp, part, e));
                                        None
                                    }
                                },
                                Part::Index(_) => match scrypto_decode::<IndexEntrySubstate<ScryptoValue>>(&value) {
                                    Ok(e) => Some(scrypto_encode(e.value()).unwrap()),
                                    Err(e) => {
                                        f.add("collection entry does not decode as its system wrapper", format!("node {} {:?} {:?}: {:?}", hexn(node), mbp, part, e));
                                        None
                                    }
                                },
                                _ => match scrypto_decode::<SortedIndexEntrySubstate<ScryptoValue>>(&value) {
                                    Ok(e) => Some(scrypto_encode(e.value()).unwrap()),
                                    Err(e) => {
                                        f.add("collection entry does not decode as its system wrapper", format!("node {} {:?} {:?}: {:?}", hexn(node), mbp, part, e));
                                        None
                                    }
                                },
                            };
                            if let (Some(p), Some(vs)) = (&payload, &value_schema) {
                                if let Err(e) = reader.validate_payload(p, vs, BLUEPRINT_PAYLOAD_MAX_DEPTH) {
                                    f.add(
                                        "collection value does not conform to the blueprint's schema",
                                        format!("node {} {:?} {:?} key {} value {}: {:?}", hexn(node), mbp, part, hex::encode(&k), hex::encode(p), e.error),
                                    );
                                }
                            }
                            // clause 5
                            if *mid == ModuleId::RoleAssignment && *part == Part::Kv(0) {
                                match scrypto_decode::<ModuleRoleKey>(&k) {
                                    Err(e) => f.add("role assignment key does not decode", format!("node {}: {:?}", hexn(node), e)),
                                    Ok(mrk) => {
                                        if mrk.module == ModuleId::RoleAssignment {
                                            f.add("role assigned inside the role-assignment module's reserved space", format!("node {} {:?}", hexn(node), mrk));
                                        }
                                        if mrk.key.key.starts_with('_') {
                                            f.add("reserved role key has an assignment", format!("node {} {:?}", hexn(node), mrk));
                                        }
                                        if mrk.key.key.len() > MAX_ROLE_NAME_LEN || !valid_role_name(&mrk.key.key) {
                                            f.add("ill-formed role key has an assignment", format!("node {} {:?}", hexn(node), mrk));
                                        }
                                        if let Some(TypeInfoSubstate::Object(o)) = info {
                                            let has_module = match (&o.object_type, mrk.module) {
                                                (_, ModuleId::Main) => true,
                                                (ObjectType::Global { modules }, m) => {
                                                    let am: Option<AttachedModuleId> = m.into();
                                                    am.map(|a| modules.contains_key(&a)).unwrap_or(false)
                                                }
                                                _ => false,
                                            };
                                            let target_bp = module_blueprint(mrk.module, &o.blueprint_info.blueprint_id);
                                            if has_module {
                                                if let Some(declared) = declared_roles(db, &target_bp) {
                                                    if !declared.contains(&mrk.key.key) {
                                                        f.add(
                                                            "role assignment for a role the blueprint does not declare",
                                                            format!("node {} {:?}: {:?} declares {:?}", hexn(node), mrk, target_bp, declared),
                                                        );
                                                    }
                                                }
                                            }
                                        }
                                    }
                                }
                                if let Some(p) = &payload {
                                    match scrypto_decode::<RoleAssignmentAccessRuleEntryPayload>(p) {
                                        Ok(r) => {
                                            if let Err(e) = rule_within_limits(&r.fully_update_and_into_latest_version()) {
                                                f.add("role rule exceeds the access-rule limits", format!("node {}: {}", hexn(node), e));
                                            }
                                        }
                                        Err(e) => f.add("role assignment value does not decode", format!("node {}: {:?}", hexn(node), e)),
                                    }
                                }
                            }
                        }
                    }
                }
            }
        }
    }
    if !expected_fields.is_empty() && info.is_some() {
        f.add(
            "stored object lacks a field its blueprint declares",
            format!("node {} ({:?}) misses (partition, field) {:?}", hexn(node), self_bp, expected_fields),
        );
    }
    f
}

/// Bring `facts` up to date with the database: re-scan the nodes in `touched` (all nodes when
/// `None`), scan nodes not seen before, forget nodes that are gone.
pub fn update_facts(db: &InMemorySubstateDatabase, facts: &mut Facts, touched: Option<&BTreeSet<NodeId>>) {
    let partitions = node_partitions(db);
    let reader = SystemDatabaseReader::new(db);
    facts.retain(|n, _| partitions.contains_key(n));
    for (node, parts) in &partitions {
        let rescan = match touched {
            None => true,
            Some(t) => t.contains(node) || !facts.contains_key(node) || facts[node].parts != *parts,
        };
        if rescan {
            facts.insert(*node, scan_node(db, &reader, node, parts));
        }
    }
}

/// The global clauses over the per-node facts.
pub fn assemble(facts: &Facts) -> LedgerScan {
    let mut s = LedgerScan::default();
    s.nodes = facts.len();
    let mut referenced: BTreeMap<NodeId, (NodeId, u8)> = BTreeMap::new();
    for (node, f) in facts {
        if !node.is_global() {
            s.internal_nodes.insert(*node);
        }
        s.substates += f.substates;
        match &f.info {
            Some(TypeInfoSubstate::Object(o)) => {
                s.blueprint.insert(*node, o.blueprint_info.blueprint_id.clone());
            }
            Some(TypeInfoSubstate::KeyValueStore(_)) => {
                s.kv_stores.insert(*node);
            }
            _ => {}
        }
        for p in &f.problems {
            s.add(p.class, p.detail.clone());
        }
        for (pn, key, o) in &f.owns {
            if let Some((prev, pp, pkey)) = s.owner.insert(*o, (*node, *pn, key.clone())) {
                s.add(
                    "node owned by more than one stored substate",
                    format!("node {} is owned by {}/{}/{} and by {}/{}/{}", hexn(o), hexn(&prev), pp, hex::encode(pkey), hexn(node), pn, hex::encode(key)),
                );
            }
        }
        for (pn, r) in &f.refs {
            referenced.entry(*r).or_insert((*node, *pn));
        }
    }
    let partitions = facts;
    // ---- clause 1: the forest
    let owners = s.owner.clone();
    for n in s.internal_nodes.clone() {
        if !owners.contains_key(&n) {
            s.add("internal node that no stored substate owns", format!("node {} ({:?})", hexn(&n), s.blueprint.get(&n)));
        }
    }
    for (owned, (by, p, _)) in &owners {
        if owned.is_global() {
            s.add("global node owned by a stored substate", format!("node {} owned by {}/{}", hexn(owned), hexn(by), p));
        }
        if !partitions.contains_key(owned) {
            s.add("stored substate owns a node that is not stored", format!("node {} owned by {}/{}", hexn(owned), hexn(by), p));
        }
        // chain to a global root
        let mut cur = *by;
        let mut steps = 0;
        while !cur.is_global() {
            match owners.get(&cur) {
                Some((up, _, _)) => cur = *up,
                None => break, // reported above
            }
            steps += 1;
            if steps > owners.len() {
                s.add("ownership cycle", format!("node {} never reaches a global owner", hexn(owned)));
                break;
            }
        }
    }
    for (r, (by, p)) in &referenced {
        if !partitions.contains_key(r) {
            s.add("stored substate references a global address where nothing is stored", format!("{} referenced by {}/{}", hexn(r), hexn(by), p));
        }
    }
    s
}


pub fn scan_ledger(db: &InMemorySubstateDatabase, _opts: &ScanOptions) -> LedgerScan {
    let mut facts = Facts::new();
    update_facts(db, &mut facts, None);
    assemble(&facts)
}

/// The repository's own checkers, as a second opinion (`Err(text)` when they object).
pub fn repo_checkers(db: &InMemorySubstateDatabase) -> Result<(), String> {
    use radix_engine::system::checkers::*;
    let r = vf_core::catch(|| {
        KernelDatabaseChecker::new().check_db(db).map_err(|e| format!("KernelDatabaseChecker: {:?}", e))?;
        let mut c = SystemDatabaseChecker::new(RoleAssignmentDatabaseChecker::default());
        let (_, errs) = c.check_db(db).map_err(|e| format!("SystemDatabaseChecker: {:?}", e))?;
        if !errs.is_empty() {
            return Err(format!("RoleAssignmentDatabaseChecker: {:?}", errs));
        }
        Ok(())
    });
    match r {
        Ok(x) => x,
        Err(p) => Err(format!("checker panicked: {}", p)),
    }
}

/// All substates of the database as a flat map (for before/after comparisons).
pub fn dump(db: &InMemorySubstateDatabase) -> BTreeMap<(NodeId, u8, Vec<u8>), Vec<u8>> {
    let mut out = BTreeMap::new();
    for pk in db.list_partition_keys() {
        let (node, pn) = SpreadPrefixKeyMapper::from_db_partition_key(&pk);
        for (k, v) in db.list_raw_values_from_db_key(&pk, None) {
            out.insert((node, pn.0, k.0), v);
        }
    }
    out
}
