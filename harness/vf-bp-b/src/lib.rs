//! vf-bp-b: blueprint-level checks C41 (liquidity pools) and C42 (validator staking / emissions),
//! run as transaction histories on the shared engine world (`vf-world`) with an exact-integer
//! oracle (`num`).

pub mod c41;
pub mod c42;
pub mod num;

pub fn checks() -> Vec<vf_core::Check> {
    vec![c41::check(), c42::check()]
}
