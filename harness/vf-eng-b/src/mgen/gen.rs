//! The generator: picks instructions against the model's current state (mostly valid operands,
//! deliberately faulty ones at a configurable rate), closes the manifest (or deliberately does
//! not), and emits real `InstructionV1`s.

use super::model::*;
use super::types::*;
use scrypto_test::prelude::*;
use std::collections::{BTreeMap, BTreeSet};
use vf_core::Gen;
use vf_world::{Gate, NfData};
use radix_transactions::manifest as mi;

pub const C_WITHDRAW: usize = 0;
pub const C_TAKE: usize = 1;
pub const C_RETURN: usize = 2;
pub const C_ASSERT: usize = 3;
pub const C_BURN: usize = 4;
pub const C_MINT: usize = 5;
pub const C_RECALL: usize = 6;
pub const C_FREEZE: usize = 7;
pub const C_PROOF_BUCKET: usize = 8;
pub const C_PROOF_ACCOUNT: usize = 9;
pub const C_PROOF_ZONE: usize = 10;
pub const C_CLONE: usize = 11;
pub const C_DROP: usize = 12;
pub const C_PUSH: usize = 13;
pub const C_POP: usize = 14;
pub const C_DROP_MANY: usize = 15;
pub const C_DEPOSIT: usize = 16;
pub const C_DEPOSIT_WORKTOP: usize = 17;
pub const C_BADGE: usize = 18;
pub const N_CAT: usize = 19;

#[derive(Clone, Debug)]
pub struct Profile {
    pub min_steps: usize,
    pub max_steps: usize,
    pub w: [u32; N_CAT],
    /// chance (percent) that a step uses a deliberately faulty operand
    pub fault_pct: u64,
    /// chance (percent) that the closing phase is cut short (leftovers)
    pub leave_pct: u64,
    /// chance (percent) that fees are locked from an account instead of the faucet
    pub account_fee_pct: u64,
    /// restrict to these resources (None = all)
    pub focus: Option<Vec<usize>>,
    /// chance (percent) that, before closing, all proofs are dropped and a vault that was locked
    /// is withdrawn in full (everything must be liquid again)
    pub full_withdraw_pct: u64,
    /// chance (percent) that an outflow from a locked container is sized against liquid + locked
    pub aim_locked_pct: u64,
    /// chance (percent) that an outflow from a locked container asks for liquid + one grid unit
    pub just_above_pct: u64,
    /// chance (percent) per step of the directed lock-table steps (three distinct locks on one
    /// vault; drop the smallest, then aim just above the liquid part)
    pub directed_pct: u64,
}

impl Profile {
    /// everything
    pub fn mixed() -> Profile {
        let mut w = [4u32; N_CAT];
        w[C_WITHDRAW] = 14;
        w[C_TAKE] = 12;
        w[C_RETURN] = 5;
        w[C_ASSERT] = 5;
        w[C_BURN] = 8;
        w[C_MINT] = 10;
        w[C_RECALL] = 6;
        w[C_FREEZE] = 3;
        w[C_DEPOSIT] = 8;
        w[C_DEPOSIT_WORKTOP] = 4;
        w[C_BADGE] = 7;
        w[C_DROP_MANY] = 1;
        Profile { min_steps: 1, max_steps: 14, w, fault_pct: 4, leave_pct: 4, account_fee_pct: 15, focus: None, full_withdraw_pct: 0, aim_locked_pct: 10, just_above_pct: 0, directed_pct: 0 }
    }
    /// worktop / bucket moves
    pub fn worktop() -> Profile {
        let mut w = [1u32; N_CAT];
        w[C_WITHDRAW] = 16;
        w[C_TAKE] = 22;
        w[C_RETURN] = 10;
        w[C_ASSERT] = 12;
        w[C_BURN] = 4;
        w[C_MINT] = 5;
        w[C_RECALL] = 2;
        w[C_FREEZE] = 1;
        w[C_PROOF_BUCKET] = 3;
        w[C_DROP] = 2;
        w[C_DEPOSIT] = 8;
        w[C_DEPOSIT_WORKTOP] = 4;
        w[C_BADGE] = 3;
        w[C_DROP_MANY] = 0;
        Profile { min_steps: 1, max_steps: 16, w, fault_pct: 6, leave_pct: 10, account_fee_pct: 5, focus: None, full_withdraw_pct: 0, aim_locked_pct: 10, just_above_pct: 0, directed_pct: 0 }
    }
    /// proofs interleaved with outflows
    pub fn proofs() -> Profile {
        let mut w = [0u32; N_CAT];
        w[C_WITHDRAW] = 14;
        w[C_TAKE] = 8;
        w[C_RETURN] = 3;
        w[C_ASSERT] = 1;
        w[C_BURN] = 8;
        w[C_MINT] = 1;
        w[C_RECALL] = 8;
        w[C_PROOF_BUCKET] = 12;
        w[C_PROOF_ACCOUNT] = 16;
        w[C_PROOF_ZONE] = 6;
        w[C_CLONE] = 10;
        w[C_DROP] = 6;
        w[C_PUSH] = 3;
        w[C_POP] = 4;
        w[C_DROP_MANY] = 1;
        w[C_DEPOSIT] = 3;
        w[C_DEPOSIT_WORKTOP] = 1;
        w[C_BADGE] = 5;
        Profile { min_steps: 5, max_steps: 22, w, fault_pct: 2, leave_pct: 2, account_fee_pct: 3, focus: None, full_withdraw_pct: 40, aim_locked_pct: 20, just_above_pct: 12, directed_pct: 12 }
    }
}

#[derive(Clone, Debug)]
pub struct Plan {
    pub ins: Vec<Ins>,
    pub signers: Vec<usize>,
    /// Ok, or (index of the failing instruction — `ins.len()` for the end-of-manifest checks, reason)
    pub predicted: Result<(), (usize, Why)>,
    /// a sufficient fee lock precedes the predicted failure (else the transaction is rejected)
    pub fee_ok: bool,
    /// final content of every account vault the manifest touched (success case)
    pub expect_f: BTreeMap<(usize, usize), A>,
    pub expect_n: BTreeMap<(usize, usize), NfHold>,
    pub minted_f: BTreeMap<usize, A>,
    pub burned_f: BTreeMap<usize, A>,
    pub minted_n: BTreeMap<usize, NfHold>,
    pub burned_n: BTreeMap<usize, NfHold>,
    pub frozen_after: BTreeMap<(usize, usize), u32>,
    pub fee_accounts: BTreeSet<usize>,
    pub faucet_fee: bool,
    pub next_id: u64,
    pub cats: BTreeSet<usize>,
    pub faults: u32,
    pub outflows_under_lock: u32,
    pub outflows_under_2: u32,
    pub max_live_proofs: u32,
    pub resources_moved: usize,
    pub exact_take_followed: bool,
    pub full_withdraw_after_unlock: bool,
}

impl Plan {
    pub fn render(&self) -> String {
        let v: Vec<String> = self.ins.iter().map(|i| i.render()).collect();
        format!(
            "signers {:?}; {} => predicted {}",
            self.signers,
            v.join("; "),
            match &self.predicted {
                Ok(()) => "success".to_string(),
                Err((i, why)) => format!("failure at #{} ({})", i, why),
            }
        )
    }
    pub fn manifest(&self, wd: &Wd, led: &Ledger) -> TransactionManifestV1 {
        TransactionManifestV1 {
            instructions: self.ins.iter().map(|i| emit(i, wd, led)).collect(),
            blobs: Default::default(),
            object_names: Default::default(),
        }
    }
    pub fn proofs(&self, wd: &Wd) -> Vec<NonFungibleGlobalId> {
        self.signers.iter().map(|a| wd.accounts[*a].1.clone()).collect()
    }
}

struct G<'a, 'g, 't> {
    g: &'g mut Gen<'t>,
    tx: Tx<'a>,
    wd: &'a Wd,
    led: &'a Ledger,
    prof: &'a Profile,
    ins: Vec<Ins>,
    failed: Option<(usize, Why)>,
    fee_ok_at_failure: bool,
    fresh: u64,
    cats: BTreeSet<usize>,
    faults: u32,
    touched: BTreeSet<usize>,
    full_withdraw: bool,
    /// the current step may emit an instruction that fails for a "boring" reason
    allow_boring: bool,
}

/// Failure reasons a non-faulty step must not produce by accident (construction over rejection):
/// they say nothing about resources and only cut the manifest short.
fn boring(why: Why) -> bool {
    matches!(why, "auth" | "emptyproof" | "novault" | "any" | "nobucket" | "noproof" | "zone_empty" | "exists" | "fee_touched" | "insufficient_proofs")
}

impl<'a, 'g, 't> G<'a, 'g, 't> {
    fn resources(&self) -> Vec<usize> {
        match &self.prof.focus {
            Some(f) => f.clone(),
            None => (0..self.wd.res.len()).collect(),
        }
    }
    fn pick_res(&mut self) -> usize {
        let rs = self.resources();
        *self.g.pick(&rs)
    }
    /// an account vault of `res` that currently has live locks (owner signed), most of the time
    fn hot_acct(&mut self, res: usize) -> Option<usize> {
        let hot: Vec<usize> = self
            .tx
            .vault_cont
            .iter()
            .filter(|(k, c)| k.1 == res && self.tx.conts[**c].locked())
            .map(|(k, _)| k.0)
            .collect();
        if !hot.is_empty() && self.g.chance(3, 4) {
            Some(*self.g.pick(&hot))
        } else {
            None
        }
    }
    fn pick_acct(&mut self, prefer_signer: bool) -> usize {
        let n = self.wd.accounts.len();
        if prefer_signer && !self.tx.signers.is_empty() && self.g.chance(9, 10) {
            let s: Vec<usize> = self.tx.signers.iter().copied().collect();
            return *self.g.pick(&s);
        }
        self.g.index(n)
    }

    /// An amount relative to what is available; `fault` = must exceed / be off the grid.
    fn amount(&mut self, res: usize, avail: A, fault: bool) -> A {
        let grid = self.wd.res[res].grid();
        let avail = avail.max(0);
        if fault {
            return match self.g.weighted(&[5, 3, 1, 1]) {
                0 => avail + grid,
                1 => {
                    if grid > 1 {
                        (avail / 2 / grid) * grid + grid / 2 + self.g.below(2) as A
                    } else {
                        avail + 1
                    }
                }
                2 => avail * 2 + ONE,
                _ => -grid,
            };
        }
        let units = avail / grid;
        let v = match self.g.weighted(&[5, 5, 3, 3, 2, 1]) {
            0 => avail,
            1 => {
                if units > 0 {
                    (1 + self.g.below(units.min(1_000_000) as u64) as A).min(units) * grid
                } else {
                    0
                }
            }
            2 => (units / 2) * grid,
            3 => {
                // small "human" amounts when available
                let c = [ONE, 5 * ONE / 2, 10 * ONE, 3 * grid, grid];
                let x = *self.g.pick(&c);
                if x % grid == 0 && x <= avail {
                    x
                } else {
                    (units.min(1)) * grid
                }
            }
            4 => (units.saturating_sub(1)).max(0) * grid,
            _ => 0,
        };
        v.min(avail)
    }

    fn subset(&mut self, pool: &Ids, allow_empty: bool) -> Ids {
        let v: Vec<&Id> = pool.iter().collect();
        if v.is_empty() {
            return Ids::new();
        }
        match self.g.weighted(&[4, 4, 2, if allow_empty { 1 } else { 0 }]) {
            0 => [(*self.g.pick(&v)).clone()].into_iter().collect(),
            1 => pool.clone(),
            2 => v.iter().filter(|_| self.g.bool()).map(|i| (*i).clone()).collect::<Ids>(),
            _ => Ids::new(),
        }
    }
    fn fresh_id(&mut self, res: usize) -> Id {
        self.fresh += 1;
        let n = self.fresh;
        match &self.wd.res[res].kind {
            Kind::N { id_type: NonFungibleIdType::String } => Id::string(format!("m_{}", n)).unwrap(),
            Kind::N { id_type: NonFungibleIdType::Bytes } => Id::bytes(vec![(n >> 8) as u8, n as u8, 0xCD]).unwrap(),
            Kind::N { id_type: NonFungibleIdType::RUID } => {
                let mut b = [0x5au8; 32];
                b[..8].copy_from_slice(&n.to_be_bytes());
                Id::ruid(b)
            }
            _ => Id::integer(100_000 + n),
        }
    }

    /// Apply to a copy of the model; keep it unless the outcome is unpredictable.
    fn push(&mut self, cat: usize, ins: Ins) -> bool {
        if self.failed.is_some() {
            return false;
        }
        let mut t2 = self.tx.clone();
        match t2.apply(&ins) {
            Err(UNPREDICTABLE) => false,
            Err(why) if !self.allow_boring && boring(why) => false,
            r => {
                let fee_before = self.tx.fee_ok;
                self.tx = t2;
                self.cats.insert(cat);
                if let Err(why) = r {
                    self.failed = Some((self.ins.len(), why));
                    self.fee_ok_at_failure = fee_before;
                }
                self.ins.push(ins);
                true
            }
        }
    }

    fn live_buckets(&self) -> Vec<u32> {
        self.tx.buckets.keys().copied().collect()
    }
    fn stale_bucket(&mut self) -> u32 {
        // a consumed id when there is one, else an id never created
        let live: BTreeSet<u32> = self.tx.buckets.keys().copied().collect();
        let consumed: Vec<u32> = (0..self.tx.next_bucket).filter(|b| !live.contains(b)).collect();
        if !consumed.is_empty() && self.g.chance(3, 4) {
            *self.g.pick(&consumed)
        } else {
            self.tx.next_bucket + self.g.below(3) as u32
        }
    }
    fn stale_proof(&mut self) -> u32 {
        let live: BTreeSet<u32> = self.tx.proofs.keys().copied().collect();
        let consumed: Vec<u32> = (0..self.tx.next_proof).filter(|b| !live.contains(b)).collect();
        if !consumed.is_empty() && self.g.chance(3, 4) {
            *self.g.pick(&consumed)
        } else {
            self.tx.next_proof + self.g.below(3) as u32
        }
    }

    /// Directed lock-table steps. (a) A signer's vault with >= 3 live locks of distinct amounts:
    /// drop a proof holding the smallest one, then withdraw liquid + one grid unit (must fail) or
    /// exactly the liquid part (must succeed). (b) Otherwise create three proofs of distinct
    /// amounts on one vault.
    fn directed(&mut self) -> bool {
        let cands: Vec<(usize, usize, usize)> = self
            .tx
            .vault_cont
            .iter()
            .filter(|(k, c)| self.tx.conts[**c].flocks.len() >= 3 && self.tx.owner_ok(k.0))
            .map(|(k, c)| (k.0, k.1, *c))
            .collect();
        if !cands.is_empty() {
            let (acct, res, c) = *self.g.pick(&cands);
            let min = *self.tx.conts[c].flocks.keys().next().unwrap();
            let is_min = |p: &ProofM| p.evidence.len() == 1 && p.evidence[0].0 == c && p.evidence[0].1 == PAmt::F(min);
            let named = self.tx.proofs.iter().find(|(_, p)| is_min(p)).map(|(k, _)| *k);
            let in_zone = self.tx.zone.iter().rposition(|p| is_min(p));
            let zone_len = self.tx.zone.len();
            self.allow_boring = false;
            let pid = match (named, in_zone) {
                (Some(k), _) => k,
                (None, Some(i)) => {
                    for _ in 0..(zone_len - i) {
                        if !self.push(C_POP, Ins::Pop) {
                            return true;
                        }
                    }
                    self.tx.next_proof - 1
                }
                _ => return false,
            };
            if !self.push(C_DROP, Ins::DropProof { p: pid }) || self.failed.is_some() {
                return true;
            }
            let Liquid::F(l) = self.tx.conts[c].liquid else { return true };
            let grid = self.wd.res[res].grid();
            let amount = if self.g.chance(2, 3) { l + grid } else { l };
            self.push(C_WITHDRAW, Ins::Withdraw { acct, res, amount });
            return true;
        }
        // (b) build three distinct locks
        let Some(res) = self.prof.focus.as_ref().and_then(|f| f.first().copied()) else { return false };
        if !self.wd.res[res].is_f() {
            return false;
        }
        let grid = self.wd.res[res].grid();
        let accts: Vec<usize> = self
            .tx
            .signers
            .iter()
            .copied()
            .filter(|a| self.tx.owner_ok(*a) && self.tx.peek_vault(*a, res).map(|v| v.amount() >= 3 * grid && v.flocks.len() < 3).unwrap_or(false))
            .collect();
        if accts.is_empty() {
            return false;
        }
        let acct = *self.g.pick(&accts);
        let units = (self.tx.peek_vault(acct, res).unwrap().amount() / grid).min(3000) as u64;
        let third = (units / 3).max(1);
        let a = 1 + self.g.below(third);
        let b = a + 1 + self.g.below(third);
        let c3 = (b + 1 + self.g.below(third)).min(units.max(b + 1));
        if c3 > units {
            return false;
        }
        let mut v = [a, b, c3];
        let k = self.g.below(6) as usize;
        v.swap(0, k % 3);
        v.swap(1, 1 + (k / 3) % 2);
        self.allow_boring = false;
        for x in v {
            if !self.push(C_PROOF_ACCOUNT, Ins::AccountProofAmount { acct, res, amount: x as A * grid }) {
                break;
            }
        }
        true
    }

    fn step(&mut self) {
        if self.prof.directed_pct > 0 && self.g.chance(self.prof.directed_pct, 100) {
            let done = self.directed();
            self.allow_boring = true;
            if done {
                return;
            }
        }
        let fault = self.g.chance(self.prof.fault_pct, 100);
        let cat = self.g.weighted(&self.prof.w);
        let before = self.ins.len();
        self.allow_boring = fault;
        self.gen_cat(cat, fault);
        self.allow_boring = true;
        if fault && self.ins.len() > before {
            self.faults += 1;
        }
    }

    /// Make sure a `Gate::Badge` role can be exercised: put a badge proof into the auth zone.
    fn want_gate(&mut self, gate: Gate, fault: bool) -> bool {
        if fault || self.tx.gate_ok(gate) {
            return true;
        }
        if gate == Gate::Badge {
            self.gen_cat(C_BADGE, false);
            return self.tx.gate_ok(gate);
        }
        false
    }

    fn gen_cat(&mut self, cat: usize, fault: bool) {
        match cat {
            C_WITHDRAW => {
                let res = self.pick_res();
                let acct = if fault && self.g.chance(1, 3) {
                    self.g.index(self.wd.accounts.len())
                } else {
                    match self.hot_acct(res) {
                        Some(a) => a,
                        None => self.pick_acct(true),
                    }
                };
                let Some(v) = self.tx.peek_vault(acct, res) else {
                    if fault {
                        self.push(cat, Ins::Withdraw { acct, res, amount: ONE });
                    }
                    return;
                };
                self.touched.insert(res);
                match &v.liquid {
                    Liquid::F(l) => {
                        let aim = if v.locked() && self.g.chance(self.prof.aim_locked_pct, 100) { v.amount() } else { *l };
                        let mut amount = self.amount(res, aim, fault);
                        if v.locked() && !fault && self.g.chance(self.prof.just_above_pct, 100) {
                            amount = *l + self.wd.res[res].grid();
                        }
                        if res == XRD_R && self.g.chance(1, 8) && !fault {
                            self.push(cat, Ins::LockFeeAndWithdraw { acct, fee: 25 * ONE, res, amount: amount.min((*l - 25 * ONE).max(0)) });
                        } else {
                            self.push(cat, Ins::Withdraw { acct, res, amount });
                        }
                    }
                    Liquid::N(h) => {
                        if self.g.chance(2, 3) {
                            let pool = if v.locked() && self.g.chance(self.prof.aim_locked_pct, 100) { v.all_known_ids() } else { h.known.clone() };
                            let mut ids = self.subset(&pool, true);
                            if fault {
                                let f = self.fresh_id(res);
                                ids.insert(f);
                            }
                            self.push(cat, Ins::WithdrawIds { acct, res, ids });
                        } else {
                            let cnt = h.count() as A;
                            let n = if fault {
                                if self.g.bool() {
                                    (cnt + 1) * ONE
                                } else {
                                    ONE / 2
                                }
                            } else {
                                match self.g.weighted(&[4, 2, 1]) {
                                    0 => cnt * ONE,
                                    1 => self.g.below(cnt as u64 + 1) as A * ONE,
                                    _ => 0,
                                }
                            };
                            self.push(cat, Ins::Withdraw { acct, res, amount: n });
                        }
                    }
                }
            }
            C_TAKE => {
                let on_top: Vec<usize> = self.tx.worktop.keys().copied().collect();
                let res = if !on_top.is_empty() && self.g.chance(9, 10) { *self.g.pick(&on_top) } else { self.pick_res() };
                let cont = self.tx.worktop.get(&res).map(|c| self.tx.conts[*c].clone());
                let total = cont.as_ref().map(|c| c.amount()).unwrap_or(0);
                let liquid = cont.as_ref().map(|c| c.liquid_amount()).unwrap_or(0);
                let is_f = self.wd.res[res].is_f();
                match self.g.weighted(&[6, if is_f { 0 } else { 5 }, 2]) {
                    0 => {
                        let amount = if fault {
                            self.amount(res, total, true)
                        } else {
                            match self.g.weighted(&[3, 3, 1]) {
                                0 => total, // exact-balance take: moves the bucket
                                1 => self.amount(res, liquid, false),
                                _ => liquid,
                            }
                        };
                        self.push(cat, Ins::Take { res, amount });
                    }
                    1 => {
                        let pool = cont.map(|c| c.all_known_ids()).unwrap_or_default();
                        let mut ids = self.subset(&pool, true);
                        if fault {
                            let f = self.fresh_id(res);
                            ids.insert(f);
                        }
                        self.push(cat, Ins::TakeIds { res, ids });
                    }
                    _ => {
                        self.push(cat, Ins::TakeAll { res });
                    }
                }
            }
            C_RETURN => {
                let b = if fault {
                    self.stale_bucket()
                } else {
                    let l = self.live_buckets();
                    if l.is_empty() {
                        return;
                    }
                    *self.g.pick(&l)
                };
                self.push(cat, Ins::Return { b });
            }
            C_ASSERT => {
                let on_top: Vec<usize> = self.tx.worktop.keys().copied().collect();
                let res = if !on_top.is_empty() && self.g.chance(4, 5) { *self.g.pick(&on_top) } else { self.pick_res() };
                let cont = self.tx.worktop.get(&res).map(|c| self.tx.conts[*c].clone());
                let total = cont.as_ref().map(|c| c.amount()).unwrap_or(0);
                let is_f = self.wd.res[res].is_f();
                match self.g.weighted(&[5, if is_f { 0 } else { 4 }, 2]) {
                    0 => {
                        // >= semantics: equal passes, one grid unit more fails
                        let amount = if fault {
                            total + if self.g.bool() { self.wd.res[res].grid() } else { 1 }
                        } else {
                            match self.g.weighted(&[3, 2, 1]) {
                                0 => total,
                                1 => self.g.below((total / self.wd.res[res].grid()).min(1 << 40) as u64 + 1) as A * self.wd.res[res].grid(),
                                _ => (total - 1).max(0),
                            }
                        };
                        self.push(cat, Ins::AssertAmount { res, amount });
                    }
                    1 => {
                        let pool = cont.map(|c| c.all_known_ids()).unwrap_or_default();
                        let mut ids = self.subset(&pool, true);
                        if fault {
                            let f = self.fresh_id(res);
                            ids.insert(f);
                        }
                        self.push(cat, Ins::AssertIds { res, ids });
                    }
                    _ => {
                        // on a resource that is absent only when a fault is wanted
                        if total > 0 || fault {
                            self.push(cat, Ins::AssertAny { res });
                        }
                    }
                }
            }
            C_BURN => {
                if self.g.chance(3, 5) {
                    let b = if fault && self.g.bool() {
                        self.stale_bucket()
                    } else {
                        let l: Vec<u32> = self
                            .live_buckets()
                            .into_iter()
                            .filter(|b| fault || self.wd.res[self.tx.conts[self.tx.buckets[b]].res].burn != Gate::Closed)
                            .collect();
                        if l.is_empty() {
                            return;
                        }
                        *self.g.pick(&l)
                    };
                    if let Some(c) = self.tx.buckets.get(&b) {
                        let gate = self.wd.res[self.tx.conts[*c].res].burn;
                        if !self.want_gate(gate, fault) {
                            return;
                        }
                    }
                    self.push(cat, Ins::BurnBucket { b });
                } else {
                    let rs: Vec<usize> = self.resources().into_iter().filter(|r| fault || self.wd.res[*r].burn != Gate::Closed).collect();
                    if rs.is_empty() {
                        return;
                    }
                    let res = *self.g.pick(&rs);
                    if !self.want_gate(self.wd.res[res].burn, fault) {
                        return;
                    }
                    let acct = match self.hot_acct(res) {
                        Some(a) => a,
                        None => self.pick_acct(true),
                    };
                    let Some(v) = self.tx.peek_vault(acct, res) else { return };
                    self.touched.insert(res);
                    match &v.liquid {
                        Liquid::F(l) => {
                            let amount = self.amount(res, *l, fault);
                            self.push(cat, Ins::AccountBurn { acct, res, amount });
                        }
                        Liquid::N(h) => {
                            if self.g.chance(3, 4) {
                                let mut ids = self.subset(&h.known, false);
                                if fault {
                                    let f = self.fresh_id(res);
                                    ids.insert(f);
                                }
                                self.push(cat, Ins::AccountBurnIds { acct, res, ids });
                            } else {
                                let cnt = h.count() as u64;
                                let n = if fault { cnt + 1 } else { self.g.below(cnt + 1) };
                                self.push(cat, Ins::AccountBurn { acct, res, amount: n as A * ONE });
                            }
                        }
                    }
                }
            }
            C_MINT => {
                let rs: Vec<usize> = self.resources().into_iter().filter(|r| fault || self.wd.res[*r].mint != Gate::Closed).collect();
                if rs.is_empty() {
                    return;
                }
                let res = *self.g.pick(&rs);
                if !self.want_gate(self.wd.res[res].mint, fault) {
                    return;
                }
                self.touched.insert(res);
                match self.wd.res[res].kind.clone() {
                    Kind::F { .. } => {
                        let amount = if fault && self.wd.res[res].grid() > 1 {
                            self.wd.res[res].grid() / 2 * 3
                        } else {
                            let grid = self.wd.res[res].grid();
                            match self.g.weighted(&[4, 3, 1, 1]) {
                                0 => (1 + self.g.below(500) as A) * grid,
                                1 => ((1 + self.g.below(50) as A) * ONE / grid) * grid,
                                2 => 0,
                                _ => (1 + self.g.below(1_000_000_000) as A) * grid,
                            }
                        };
                        self.push(cat, Ins::MintF { res, amount });
                    }
                    Kind::N { id_type: NonFungibleIdType::RUID } => {
                        let n = self.g.below(4) as u32;
                        self.push(cat, Ins::MintRuid { res, n });
                    }
                    Kind::N { .. } => {
                        let k = 1 + self.g.below(3);
                        let mut ids = Ids::new();
                        for _ in 0..k {
                            let f = self.fresh_id(res);
                            ids.insert(f);
                        }
                        if fault {
                            // an id that exists or existed
                            let pool: Vec<Id> = self
                                .led
                                .live_ids
                                .get(&res)
                                .into_iter()
                                .flatten()
                                .chain(self.led.dead_ids.get(&res).into_iter().flatten())
                                .cloned()
                                .collect();
                            if !pool.is_empty() {
                                ids.insert(self.g.pick(&pool).clone());
                            }
                        }
                        self.push(cat, Ins::MintN { res, ids });
                    }
                }
            }
            C_RECALL | C_FREEZE => {
                let want_freeze = cat == C_FREEZE;
                let cands: Vec<(usize, usize)> = self
                    .led
                    .vault
                    .keys()
                    .filter(|(_, r)| {
                        let gate = if want_freeze { self.wd.res[*r].freeze } else { self.wd.res[*r].recall };
                        (fault || gate != Gate::Closed) && self.prof.focus.as_ref().map(|f| f.contains(r)).unwrap_or(true)
                    })
                    .copied()
                    .collect();
                if cands.is_empty() {
                    return;
                }
                let (mut acct, res) = *self.g.pick(&cands);
                if let Some(a) = self.hot_acct(res) {
                    if self.led.vault.contains_key(&(a, res)) {
                        acct = a;
                    }
                }
                let gate = if want_freeze { self.wd.res[res].freeze } else { self.wd.res[res].recall };
                if !self.want_gate(gate, fault) {
                    return;
                }
                self.touched.insert(res);
                if want_freeze {
                    let flags = 1 + self.g.below(7) as u32;
                    if self.g.chance(3, 5) {
                        self.push(cat, Ins::Freeze { acct, res, flags });
                    } else {
                        self.push(cat, Ins::Unfreeze { acct, res, flags });
                    }
                    return;
                }
                let v = self.tx.peek_vault(acct, res).unwrap();
                match &v.liquid {
                    Liquid::F(l) => {
                        let aim = if v.locked() && self.g.chance(self.prof.aim_locked_pct, 100) { v.amount() } else { *l };
                        let amount = self.amount(res, aim, fault && self.wd.res[res].recall != Gate::Closed);
                        self.push(cat, Ins::Recall { acct, res, amount });
                    }
                    Liquid::N(h) => {
                        if self.g.chance(3, 4) {
                            let pool = if v.locked() && self.g.chance(self.prof.aim_locked_pct, 100) { v.all_known_ids() } else { h.known.clone() };
                            let mut ids = self.subset(&pool, true);
                            if fault && self.wd.res[res].recall != Gate::Closed {
                                let f = self.fresh_id(res);
                                ids.insert(f);
                            }
                            self.push(cat, Ins::RecallIds { acct, res, ids });
                        } else {
                            let cnt = h.count() as u64;
                            let n = if fault { cnt + 1 } else { self.g.below(cnt + 1) };
                            self.push(cat, Ins::Recall { acct, res, amount: n as A * ONE });
                        }
                    }
                }
            }
            C_PROOF_BUCKET => {
                let b = if fault && self.g.chance(1, 3) {
                    self.stale_bucket()
                } else {
                    let l = self.live_buckets();
                    if l.is_empty() {
                        return;
                    }
                    *self.g.pick(&l)
                };
                let Some(c) = self.tx.buckets.get(&b).map(|c| self.tx.conts[*c].clone()) else {
                    self.push(cat, Ins::ProofFromBucketAll { b });
                    return;
                };
                if self.wd.res[c.res].is_f() {
                    if self.g.chance(1, 4) {
                        self.push(cat, Ins::ProofFromBucketAll { b });
                    } else {
                        let mut amount = self.amount(c.res, c.amount(), fault);
                        if amount == 0 && !fault {
                            amount = self.wd.res[c.res].grid().min(c.amount());
                        }
                        self.push(cat, Ins::ProofFromBucketAmount { b, amount });
                    }
                } else if self.g.chance(1, 3) {
                    self.push(cat, Ins::ProofFromBucketAll { b });
                } else {
                    let mut ids = self.subset(&c.all_known_ids(), false);
                    if fault {
                        let f = self.fresh_id(c.res);
                        ids.insert(f);
                    }
                    self.push(cat, Ins::ProofFromBucketIds { b, ids });
                }
            }
            C_PROOF_ACCOUNT | C_BADGE => {
                let res = if cat == C_BADGE { BADGE_R } else { self.pick_res() };
                let acct = if cat == C_BADGE {
                    let holders: Vec<usize> = self.tx.signers.iter().copied().filter(|a| self.tx.has_vault(*a, BADGE_R)).collect();
                    if holders.is_empty() {
                        return;
                    }
                    *self.g.pick(&holders)
                } else {
                    match self.hot_acct(res) {
                        Some(a) => a,
                        None => self.pick_acct(true),
                    }
                };
                let Some(v) = self.tx.peek_vault(acct, res) else { return };
                match &v.liquid {
                    Liquid::F(_) => {
                        let mut amount = if cat == C_BADGE && !fault { ONE } else { self.amount(res, v.amount(), fault) };
                        if amount == 0 && !fault {
                            amount = self.wd.res[res].grid().min(v.amount());
                        }
                        self.push(cat, Ins::AccountProofAmount { acct, res, amount });
                    }
                    Liquid::N(_) => {
                        let mut ids = self.subset(&v.all_known_ids(), false);
                        if fault {
                            let f = self.fresh_id(res);
                            ids.insert(f);
                        }
                        self.push(cat, Ins::AccountProofIds { acct, res, ids });
                    }
                }
            }
            C_PROOF_ZONE => {
                let in_zone: Vec<usize> = self.tx.zone.iter().map(|p| p.res).collect::<BTreeSet<_>>().into_iter().collect();
                let res = if !in_zone.is_empty() && self.g.chance(9, 10) { *self.g.pick(&in_zone) } else { self.pick_res() };
                if self.wd.res[res].is_f() {
                    // what the zone can prove: per container the maximum, summed over containers
                    let mut quota: BTreeMap<usize, A> = BTreeMap::new();
                    for p in self.tx.zone.iter().filter(|p| p.res == res) {
                        for (c, a) in &p.evidence {
                            if let PAmt::F(x) = a {
                                let e = quota.entry(*c).or_insert(0);
                                *e = (*e).max(*x);
                            }
                        }
                    }
                    let total: A = quota.values().sum();
                    if self.g.chance(1, 4) {
                        self.push(cat, Ins::ZoneProofAll { res });
                    } else {
                        let mut amount = self.amount(res, total, fault);
                        if amount == 0 && !fault {
                            amount = self.wd.res[res].grid().min(total);
                        }
                        self.push(cat, Ins::ZoneProofAmount { res, amount });
                    }
                } else {
                    let total: Ids = self
                        .tx
                        .zone
                        .iter()
                        .filter(|p| p.res == res)
                        .flat_map(|p| p.evidence.iter())
                        .filter_map(|(_, a)| if let PAmt::N(i) = a { Some(i.clone()) } else { None })
                        .flatten()
                        .collect();
                    match self.g.weighted(&[3, 1, 1]) {
                        0 => {
                            let mut ids = self.subset(&total, false);
                            if fault {
                                let f = self.fresh_id(res);
                                ids.insert(f);
                            }
                            self.push(cat, Ins::ZoneProofIds { res, ids });
                        }
                        1 => {
                            self.push(cat, Ins::ZoneProofAll { res });
                        }
                        _ => {
                            let n = if fault { total.len() + 1 } else { total.len() };
                            self.push(cat, Ins::ZoneProofAmount { res, amount: n as A * ONE });
                        }
                    }
                }
            }
            C_CLONE | C_DROP | C_PUSH => {
                let p = if fault {
                    self.stale_proof()
                } else {
                    let l: Vec<u32> = self.tx.proofs.keys().copied().collect();
                    if l.is_empty() {
                        return;
                    }
                    *self.g.pick(&l)
                };
                let ins = match cat {
                    C_CLONE => Ins::CloneProof { p },
                    C_DROP => Ins::DropProof { p },
                    _ => Ins::Push { p },
                };
                self.push(cat, ins);
            }
            C_POP => {
                if self.tx.zone.is_empty() && !fault {
                    return;
                }
                self.push(cat, Ins::Pop);
            }
            C_DROP_MANY => {
                let ins = match self.g.weighted(&[4, 4, 1, 1, 1]) {
                    0 => Ins::DropZoneRegular,
                    1 => Ins::DropNamedProofs,
                    2 => Ins::DropZoneAll,
                    3 => Ins::DropZoneSignatures,
                    _ => Ins::DropAllProofs,
                };
                self.push(cat, ins);
            }
            C_DEPOSIT => {
                let b = if fault && self.g.bool() {
                    self.stale_bucket()
                } else {
                    let l = self.live_buckets();
                    if l.is_empty() {
                        return;
                    }
                    *self.g.pick(&l)
                };
                match self.g.weighted(&[4, 4, 2]) {
                    0 => {
                        let acct = if fault { self.g.index(self.wd.accounts.len()) } else { self.pick_acct(true) };
                        self.push(cat, Ins::Deposit { acct, b });
                    }
                    1 => {
                        let acct = self.g.index(self.wd.accounts.len());
                        self.push(cat, Ins::TryDeposit { acct, b });
                    }
                    _ => {
                        let acct = self.pick_acct(true);
                        let mut bs = vec![b];
                        for x in self.live_buckets() {
                            if x != b && self.g.bool() {
                                bs.push(x);
                            }
                        }
                        self.push(cat, Ins::DepositBatch { acct, bs });
                    }
                }
            }
            C_DEPOSIT_WORKTOP => {
                let try_ = self.g.bool();
                let acct = if try_ { self.g.index(self.wd.accounts.len()) } else { self.pick_acct(true) };
                self.push(cat, Ins::DepositWorktop { acct, try_ });
            }
            _ => {}
        }
    }

    /// Drop every proof, then withdraw in full a vault that had been locked: all of it must be
    /// liquid again.
    fn full_withdraw_tail(&mut self) {
        let cands: Vec<(usize, usize)> = self
            .tx
            .vault_cont
            .iter()
            .filter(|(k, c)| self.tx.conts[**c].ever_locked && self.tx.owner_ok(k.0) && self.tx.conts[**c].anon() == 0)
            .map(|(k, _)| *k)
            .collect();
        if cands.is_empty() {
            return;
        }
        let (acct, res) = *self.g.pick(&cands);
        if !self.tx.proofs.is_empty() {
            self.push(C_DROP_MANY, Ins::DropNamedProofs);
        }
        if !self.tx.zone.is_empty() {
            self.push(C_DROP_MANY, Ins::DropZoneRegular);
        }
        if self.failed.is_some() {
            return;
        }
        let c = self.tx.vault_cont[&(acct, res)];
        let total = self.tx.conts[c].amount();
        match &self.tx.conts[c].liquid {
            Liquid::N(_) if self.g.bool() => {
                let ids = self.tx.conts[c].all_known_ids();
                self.push(C_WITHDRAW, Ins::WithdrawIds { acct, res, ids });
            }
            _ => {
                self.push(C_WITHDRAW, Ins::Withdraw { acct, res, amount: total });
            }
        }
        self.full_withdraw = self.failed.is_none();
    }

    /// Bring the manifest to a state that can succeed: release bucket locks, consume named
    /// buckets, empty the worktop. `leave` cuts it short somewhere.
    fn close(&mut self, leave: bool) {
        let stop_at = if leave { self.g.below(3) } else { 99 };
        // 1. proofs that lock buckets (named or on the worktop) must go
        let bucket_conts: BTreeSet<usize> = self.tx.buckets.values().chain(self.tx.worktop.values()).copied().collect();
        let locking = |p: &ProofM| p.evidence.iter().any(|(c, _)| bucket_conts.contains(c));
        if stop_at == 0 {
            return;
        }
        let named: Vec<u32> = self.tx.proofs.iter().filter(|(_, p)| locking(p)).map(|(k, _)| *k).collect();
        if !named.is_empty() {
            if self.g.chance(1, 4) {
                self.push(C_DROP_MANY, Ins::DropNamedProofs);
            } else {
                for p in named {
                    self.push(C_DROP, Ins::DropProof { p });
                }
            }
        }
        if self.tx.zone.iter().any(|p| locking(p)) {
            self.push(C_DROP_MANY, Ins::DropZoneRegular);
        }
        if stop_at == 1 {
            return;
        }
        // 2. named buckets
        let target = |s: &mut Self| -> (usize, bool) {
            if s.tx.owner_ok_any() && s.g.chance(2, 3) {
                let v: Vec<usize> = s.tx.signers.iter().copied().collect();
                (*s.g.pick(&v), false)
            } else {
                (s.g.index(s.wd.accounts.len()), true)
            }
        };
        for b in self.live_buckets() {
            if self.failed.is_some() {
                return;
            }
            let c = self.tx.buckets[&b];
            let res = self.tx.conts[c].res;
            let burnable = self.tx.gate_ok(self.wd.res[res].burn);
            match self.g.weighted(&[4, 4, if burnable { 2 } else { 0 }]) {
                0 => {
                    self.push(C_RETURN, Ins::Return { b });
                }
                1 => {
                    let (acct, try_) = target(self);
                    if try_ {
                        self.push(C_DEPOSIT, Ins::TryDeposit { acct, b });
                    } else {
                        self.push(C_DEPOSIT, Ins::Deposit { acct, b });
                    }
                }
                _ => {
                    self.push(C_BURN, Ins::BurnBucket { b });
                }
            }
        }
        if stop_at == 2 {
            return;
        }
        // 3. the worktop
        if !self.tx.worktop.is_empty() {
            let (acct, try_) = target(self);
            self.push(C_DEPOSIT_WORKTOP, Ins::DepositWorktop { acct, try_ });
        }
    }
}

impl<'a> Tx<'a> {
    pub fn owner_ok_any(&self) -> bool {
        self.sig_alive && !self.signers.is_empty()
    }
}

/// Generate one manifest against the ledger knowledge `led`.
pub fn generate(g: &mut Gen, wd: &Wd, led: &Ledger, prof: &Profile) -> Plan {
    let n_acct = wd.accounts.len();
    // signers: usually one or two accounts
    let mut signers = BTreeSet::new();
    match g.weighted(&[6, 5, 2, 1]) {
        0 => {
            signers.insert(g.index(n_acct));
        }
        1 => {
            signers.insert(g.index(n_acct));
            signers.insert(g.index(n_acct));
        }
        2 => {
            signers.extend(0..n_acct);
        }
        _ => {}
    }
    let tx = Tx::new(wd, led, signers.clone());
    let mut s = G {
        g,
        tx,
        wd,
        led,
        prof,
        ins: vec![],
        failed: None,
        fee_ok_at_failure: false,
        fresh: led.next_id,
        cats: BTreeSet::new(),
        faults: 0,
        touched: BTreeSet::new(),
        full_withdraw: false,
        allow_boring: true,
    };
    // fee
    let from_account = !signers.is_empty() && s.g.chance(prof.account_fee_pct, 100);
    if from_account {
        let v: Vec<usize> = signers.iter().copied().collect();
        let acct = *s.g.pick(&v);
        let amount = *s.g.pick(&[50 * ONE, 100 * ONE, 20 * ONE]);
        s.push(N_CAT, Ins::LockFee { acct, amount, contingent: false });
        if s.g.chance(1, 4) {
            let acct2 = *s.g.pick(&v);
            let contingent = s.g.bool();
            s.push(N_CAT, Ins::LockFee { acct: acct2, amount: 10 * ONE, contingent });
        }
    } else {
        s.push(N_CAT, Ins::LockFeeFaucet);
    }
    let steps = s.g.range_usize(prof.min_steps, prof.max_steps);
    for _ in 0..steps {
        if s.failed.is_some() {
            break;
        }
        s.step();
    }
    if s.failed.is_none() && s.g.chance(prof.full_withdraw_pct, 100) {
        s.full_withdraw_tail();
    }
    if s.failed.is_none() {
        let leave = s.g.chance(prof.leave_pct, 100);
        s.close(leave);
    }
    let mut predicted = match s.failed {
        Some(f) => Err(f),
        None => Ok(()),
    };
    let mut fee_ok = if predicted.is_err() { s.fee_ok_at_failure } else { s.tx.fee_ok };
    let resources_moved = s.tx.vault_cont.keys().map(|k| k.1).chain(s.tx.minted_f.keys().copied()).chain(s.tx.minted_n.keys().copied()).collect::<BTreeSet<_>>().len();
    let fee_accounts: BTreeSet<usize> = s.tx.fee_locked.keys().copied().collect();
    if predicted.is_ok() {
        if let Err(why) = s.tx.finish() {
            predicted = Err((s.ins.len(), why));
            fee_ok = s.tx.fee_ok;
        }
    }
    let mut expect_f = BTreeMap::new();
    let mut expect_n = BTreeMap::new();
    if predicted.is_ok() {
        for ((acct, res), c) in &s.tx.vault_cont {
            match &s.tx.conts[*c].liquid {
                Liquid::F(a) => {
                    expect_f.insert((*acct, *res), *a);
                }
                Liquid::N(h) => {
                    expect_n.insert((*acct, *res), h.clone());
                }
            }
        }
    }
    Plan {
        ins: s.ins,
        signers: signers.into_iter().collect(),
        predicted,
        fee_ok,
        expect_f,
        expect_n,
        minted_f: s.tx.minted_f.clone(),
        burned_f: s.tx.burned_f.clone(),
        minted_n: s.tx.minted_n.clone(),
        burned_n: s.tx.burned_n.clone(),
        frozen_after: s.tx.frozen.clone(),
        fee_accounts,
        faucet_fee: s.tx.faucet_fee,
        next_id: s.fresh,
        cats: s.cats,
        faults: s.faults,
        outflows_under_lock: s.tx.outflows_under_lock,
        outflows_under_2: s.tx.outflows_under_2,
        max_live_proofs: s.tx.max_live_proofs,
        resources_moved,
        exact_take_followed: s.tx.exact_take_followed,
        full_withdraw_after_unlock: s.full_withdraw,
    }
}

// ---- emission ------------------------------------------------------------------------------------

fn call(addr: impl Into<GlobalAddress>, method: &str, args: ManifestValue) -> InstructionV1 {
    InstructionV1::CallMethod(mi::CallMethod { address: ManifestGlobalAddress::Static(addr.into()), method_name: method.to_string(), args })
}
fn direct(vault: NodeId, method: &str, args: ManifestValue) -> InstructionV1 {
    InstructionV1::CallDirectVaultMethod(mi::CallDirectVaultMethod {
        address: InternalAddress::new_or_panic(vault.0),
        method_name: method.to_string(),
        args,
    })
}
fn idv(ids: &Ids) -> Vec<Id> {
    ids.iter().cloned().collect()
}

pub fn emit(ins: &Ins, wd: &Wd, led: &Ledger) -> InstructionV1 {
    use Ins::*;
    let acct = |a: &usize| wd.accounts[*a].0;
    let res = |r: &usize| wd.res[*r].addr;
    let vault = |a: &usize, r: &usize| *led.vault.get(&(*a, *r)).expect("generator emitted a direct vault call for an unknown vault");
    let none: Option<ResourceOrNonFungible> = None;
    match ins {
        LockFeeFaucet => call(FAUCET, "lock_fee", to_manifest_value_and_unwrap!(&(dec(5000 * ONE),))),
        LockFee { acct: a, amount, contingent } => {
            call(acct(a), if *contingent { "lock_contingent_fee" } else { "lock_fee" }, to_manifest_value_and_unwrap!(&(dec(*amount),)))
        }
        Withdraw { acct: a, res: r, amount } => call(acct(a), "withdraw", to_manifest_value_and_unwrap!(&(res(r), dec(*amount)))),
        WithdrawIds { acct: a, res: r, ids } => call(acct(a), "withdraw_non_fungibles", to_manifest_value_and_unwrap!(&(res(r), idv(ids)))),
        LockFeeAndWithdraw { acct: a, fee, res: r, amount } => {
            call(acct(a), "lock_fee_and_withdraw", to_manifest_value_and_unwrap!(&(dec(*fee), res(r), dec(*amount))))
        }
        Take { res: r, amount } => InstructionV1::TakeFromWorktop(mi::TakeFromWorktop { resource_address: res(r), amount: dec(*amount) }),
        TakeIds { res: r, ids } => InstructionV1::TakeNonFungiblesFromWorktop(mi::TakeNonFungiblesFromWorktop { resource_address: res(r), ids: idv(ids) }),
        TakeAll { res: r } => InstructionV1::TakeAllFromWorktop(mi::TakeAllFromWorktop { resource_address: res(r) }),
        Return { b } => InstructionV1::ReturnToWorktop(mi::ReturnToWorktop { bucket_id: ManifestBucket(*b) }),
        AssertAmount { res: r, amount } => InstructionV1::AssertWorktopContains(mi::AssertWorktopContains { resource_address: res(r), amount: dec(*amount) }),
        AssertIds { res: r, ids } => {
            InstructionV1::AssertWorktopContainsNonFungibles(mi::AssertWorktopContainsNonFungibles { resource_address: res(r), ids: idv(ids) })
        }
        AssertAny { res: r } => InstructionV1::AssertWorktopContainsAny(mi::AssertWorktopContainsAny { resource_address: res(r) }),
        BurnBucket { b } => InstructionV1::BurnResource(mi::BurnResource { bucket_id: ManifestBucket(*b) }),
        AccountBurn { acct: a, res: r, amount } => call(acct(a), "burn", to_manifest_value_and_unwrap!(&(res(r), dec(*amount)))),
        AccountBurnIds { acct: a, res: r, ids } => call(acct(a), "burn_non_fungibles", to_manifest_value_and_unwrap!(&(res(r), idv(ids)))),
        MintF { res: r, amount } => call(res(r), "mint", to_manifest_value_and_unwrap!(&(dec(*amount),))),
        MintN { res: r, ids } => {
            let mut entries: IndexMap<Id, (ManifestValue,)> = IndexMap::default();
            for (k, id) in ids.iter().enumerate() {
                let data = NfData { a: k as u64, b: format!("minted{}", k), c: 7 };
                entries.insert(id.clone(), (to_manifest_value_and_unwrap!(&data),));
            }
            call(res(r), "mint", to_manifest_value_and_unwrap!(&NonFungibleResourceManagerMintManifestInput { entries }))
        }
        MintRuid { res: r, n } => {
            let entries: Vec<(ManifestValue,)> =
                (0..*n).map(|k| (to_manifest_value_and_unwrap!(&NfData { a: k as u64, b: "ruid".into(), c: 9 }),)).collect();
            call(res(r), "mint_ruid", to_manifest_value_and_unwrap!(&NonFungibleResourceManagerMintRuidManifestInput { entries }))
        }
        Recall { acct: a, res: r, amount } => direct(vault(a, r), "recall", to_manifest_value_and_unwrap!(&(dec(*amount),))),
        RecallIds { acct: a, res: r, ids } => direct(vault(a, r), "recall_non_fungibles", to_manifest_value_and_unwrap!(&(idv(ids),))),
        Freeze { acct: a, res: r, flags } => {
            direct(vault(a, r), "freeze", to_manifest_value_and_unwrap!(&(VaultFreezeFlags::from_bits_truncate(*flags),)))
        }
        Unfreeze { acct: a, res: r, flags } => {
            direct(vault(a, r), "unfreeze", to_manifest_value_and_unwrap!(&(VaultFreezeFlags::from_bits_truncate(*flags),)))
        }
        ProofFromBucketAmount { b, amount } => {
            InstructionV1::CreateProofFromBucketOfAmount(mi::CreateProofFromBucketOfAmount { bucket_id: ManifestBucket(*b), amount: dec(*amount) })
        }
        ProofFromBucketIds { b, ids } => {
            InstructionV1::CreateProofFromBucketOfNonFungibles(mi::CreateProofFromBucketOfNonFungibles { bucket_id: ManifestBucket(*b), ids: idv(ids) })
        }
        ProofFromBucketAll { b } => InstructionV1::CreateProofFromBucketOfAll(mi::CreateProofFromBucketOfAll { bucket_id: ManifestBucket(*b) }),
        AccountProofAmount { acct: a, res: r, amount } => call(acct(a), "create_proof_of_amount", to_manifest_value_and_unwrap!(&(res(r), dec(*amount)))),
        AccountProofIds { acct: a, res: r, ids } => call(acct(a), "create_proof_of_non_fungibles", to_manifest_value_and_unwrap!(&(res(r), idv(ids)))),
        ZoneProofAmount { res: r, amount } => {
            InstructionV1::CreateProofFromAuthZoneOfAmount(mi::CreateProofFromAuthZoneOfAmount { resource_address: res(r), amount: dec(*amount) })
        }
        ZoneProofIds { res: r, ids } => {
            InstructionV1::CreateProofFromAuthZoneOfNonFungibles(mi::CreateProofFromAuthZoneOfNonFungibles { resource_address: res(r), ids: idv(ids) })
        }
        ZoneProofAll { res: r } => InstructionV1::CreateProofFromAuthZoneOfAll(mi::CreateProofFromAuthZoneOfAll { resource_address: res(r) }),
        CloneProof { p } => InstructionV1::CloneProof(mi::CloneProof { proof_id: ManifestProof(*p) }),
        DropProof { p } => InstructionV1::DropProof(mi::DropProof { proof_id: ManifestProof(*p) }),
        Push { p } => InstructionV1::PushToAuthZone(mi::PushToAuthZone { proof_id: ManifestProof(*p) }),
        Pop => InstructionV1::PopFromAuthZone(mi::PopFromAuthZone),
        DropZoneAll => InstructionV1::DropAuthZoneProofs(mi::DropAuthZoneProofs),
        DropZoneRegular => InstructionV1::DropAuthZoneRegularProofs(mi::DropAuthZoneRegularProofs),
        DropZoneSignatures => InstructionV1::DropAuthZoneSignatureProofs(mi::DropAuthZoneSignatureProofs),
        DropNamedProofs => InstructionV1::DropNamedProofs(mi::DropNamedProofs),
        DropAllProofs => InstructionV1::DropAllProofs(mi::DropAllProofs),
        Deposit { acct: a, b } => call(acct(a), "deposit", to_manifest_value_and_unwrap!(&(ManifestBucket(*b),))),
        TryDeposit { acct: a, b } => call(acct(a), "try_deposit_or_abort", to_manifest_value_and_unwrap!(&(ManifestBucket(*b), none.clone()))),
        DepositBatch { acct: a, bs } => {
            let v: Vec<ManifestBucket> = bs.iter().map(|b| ManifestBucket(*b)).collect();
            call(acct(a), "deposit_batch", to_manifest_value_and_unwrap!(&(v,)))
        }
        DepositWorktop { acct: a, try_ } => {
            if *try_ {
                call(acct(a), "try_deposit_batch_or_abort", to_manifest_value_and_unwrap!(&(ManifestExpression::EntireWorktop, none.clone())))
            } else {
                call(acct(a), "deposit_batch", to_manifest_value_and_unwrap!(&(ManifestExpression::EntireWorktop,)))
            }
        }
    }
}
