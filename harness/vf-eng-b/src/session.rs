//! A sequence of generated transactions on one (reset) world: keeps the generator's ledger
//! knowledge in sync with the raw database between transactions.

use crate::judge::*;
use crate::mgen::*;
use scrypto_test::prelude::*;
use vf_core::{Failure, Gen};
use vf_world::*;

pub const WORLD_KEY: &str = "eng-b";

/// Extra setup of the standard world: accounts 1 and 2 get some of the gate badge, so that several
/// accounts can open `Gate::Badge` roles (account 3 keeps none and has no badge vault).
pub fn build(w: &mut World) {
    let a0 = w.accounts[0].address;
    for (i, n) in [(1usize, 3), (2usize, 2)] {
        let m = ManifestBuilder::new()
            .lock_fee_from_faucet()
            .withdraw_from_account(a0, w.badge, Decimal::from(n as u64))
            .try_deposit_entire_worktop_or_abort(w.accounts[i].address, None)
            .build();
        w.sim.execute_manifest(m, vec![w.accounts[0].badge()]).expect_commit_success();
    }
}

pub struct Session<'w> {
    pub w: &'w mut World,
    pub wd: Wd,
    pub led: Ledger,
    pub totals: Totals,
}

impl<'w> Session<'w> {
    pub fn new(w: &'w mut World) -> Session<'w> {
        let wd = Wd::of(w);
        let totals = Totals::scan(w.db());
        let mut led = Ledger::default();
        led.sync(w.db(), &wd, &totals);
        Session { w, wd, led, totals }
    }

    /// Generate one manifest against the current state and execute it.
    pub fn step(&mut self, g: &mut Gen, prof: &Profile) -> (Plan, Obs, Ledger) {
        let plan = generate(g, &self.wd, &self.led, prof);
        let manifest = plan.manifest(&self.wd, &self.led);
        let obs = execute(self.w, self.totals.clone(), manifest, plan.proofs(&self.wd));
        let led_before = self.led.clone();
        self.absorb(&obs, plan.next_id);
        (plan, obs, led_before)
    }

    /// Execute a hand-built manifest (not modelled).
    pub fn run_raw(&mut self, manifest: TransactionManifestV1, proofs: Vec<NonFungibleGlobalId>) -> Obs {
        let obs = execute(self.w, self.totals.clone(), manifest, proofs);
        let n = self.led.next_id;
        self.absorb(&obs, n);
        obs
    }

    /// Re-read the generator's knowledge after something changed the ledger.
    pub fn absorb(&mut self, obs: &Obs, next_id: u64) {
        self.totals = obs.after.clone();
        self.led.next_id = next_id;
        if let Some(c) = obs.run.commit() {
            for e in &c.application_events {
                if let Ok(Some(Ev::BurnN(r, ids))) = decode_event(e) {
                    if let Some(ri) = self.wd.res_index(&r) {
                        self.led.dead_ids.entry(ri).or_default().extend(ids);
                    }
                }
            }
        }
        self.led.sync(self.w.db(), &self.wd, &self.totals);
    }
    pub fn rescan(&mut self) {
        self.totals = Totals::scan(self.w.db());
        self.led.sync(self.w.db(), &self.wd, &self.totals);
    }
}

pub fn label_plan(g: &mut Gen, plan: &Plan, outcome: Outcome3) {
    match (&plan.predicted, outcome) {
        (Ok(()), _) => g.label("predicted_success"),
        (Err((i, _)), Outcome3::Rejected) => {
            let _ = i;
            g.label("predicted_failure_rejected")
        }
        (Err((i, _)), _) => {
            if *i == plan.ins.len() {
                g.label("predicted_failure_at_end")
            } else {
                g.label("predicted_failure_in_body")
            }
        }
    }
    if let Err((_, why)) = &plan.predicted {
        g.label(why_label(why));
    }
    if plan.faults > 0 {
        g.label("fault_injected");
    }
}

fn why_label(why: Why) -> &'static str {
    match why {
        "auth" => "fail:auth",
        "novault" => "fail:novault",
        "frozen" => "fail:frozen",
        "invalid_amount" => "fail:invalid_amount",
        "insufficient" => "fail:insufficient",
        "wt_insufficient" => "fail:worktop_insufficient",
        "assertion" => "fail:assertion",
        "nobucket" => "fail:stale_bucket",
        "noproof" => "fail:stale_proof",
        "zone_empty" => "fail:zone_empty",
        "locked" => "fail:locked",
        "exists" => "fail:id_exists",
        "emptyproof" => "fail:empty_proof",
        "insufficient_proofs" => "fail:insufficient_proofs",
        "leftover_worktop" => "fail:leftover_worktop",
        "orphan" => "fail:leftover_bucket",
        "deposit" => "fail:deposit",
        _ => "fail:other",
    }
}

pub fn try_f<T>(r: Result<T, Failure>) -> Result<T, vf_core::Outcome> {
    r.map_err(vf_core::Outcome::Fail)
}
