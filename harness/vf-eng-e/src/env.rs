//! The world of C11 (and the address book C36b / C37b / C38 reuse): the standard vf-world plus one
//! instance of every native component blueprint a transaction can address (pools, validator,
//! access controller, account locker, identity, puppets, a puppet holding vaults), the catalogue of
//! every function and method of every blueprint of every package found in the database, and the
//! schemas needed to generate their arguments.

use radix_engine::system::system_db_reader::SystemDatabaseReader;
use radix_blueprint_schema_init::RefTypes;
use radix_engine_interface::blueprints::locker::*;
use radix_engine_interface::blueprints::pool::*;
use scrypto_test::prelude::*;
use std::collections::{BTreeMap, BTreeSet};
use std::rc::Rc;
use std::sync::Mutex;
use vf_eng_c::pup::*;
use vf_world::*;

pub const WORLD_KEY: &str = "eng-e";

#[derive(Clone, Copy, Debug, PartialEq, Eq)]
pub enum Module {
    Main,
    Metadata,
    Royalty,
    RoleAssignment,
}

#[derive(Clone, Debug)]
pub struct Target {
    pub package: PackageAddress,
    pub blueprint: String,
    pub ident: String,
    /// None = function; Some((normal, direct)) = method and the reference kinds it accepts
    pub receiver: Option<(bool, bool)>,
    /// which instruction addresses the methods of this blueprint
    pub module: Module,
    /// input type (None = generic)
    pub input: Option<(SchemaHash, LocalTypeId)>,
    pub label: &'static str,
    pub native: bool,
}

#[derive(Clone, Debug)]
pub enum ResKind {
    Fungible { divisibility: u8 },
    NonFungible,
}

#[derive(Clone, Debug)]
pub struct ResInfo {
    pub address: ResourceAddress,
    pub kind: ResKind,
    pub name: &'static str,
}

pub struct Ext {
    pub targets: Vec<Target>,
    /// indices into `targets` by blueprint
    pub by_blueprint: BTreeMap<(PackageAddress, String), Vec<usize>>,
    pub schemas: BTreeMap<(PackageAddress, SchemaHash), Rc<VersionedScryptoSchema>>,
    /// global instances by blueprint, from the type-info substates of the frozen world
    pub globals: BTreeMap<(PackageAddress, String), Vec<GlobalAddress>>,
    pub components: Vec<GlobalAddress>,
    pub packages: Vec<PackageAddress>,
    /// every resource manager of the ledger
    pub all_resources: Vec<ResourceAddress>,
    /// resources the accounts hold (used for buckets and proofs)
    pub resources: Vec<ResInfo>,
    /// internal vault addresses: account vaults (all resources) and the holder's vaults
    pub vaults: Vec<InternalAddress>,
    /// (account index, resource) -> vaults, for the frozen world
    pub account_vaults: BTreeMap<(usize, ResourceAddress), Vec<NodeId>>,
    pub one_pool: ComponentAddress,
    pub two_pool: ComponentAddress,
    pub multi_pool: ComponentAddress,
    pub pool_units: Vec<ResourceAddress>,
    pub validator: ComponentAddress,
    pub validator_badge_id: NonFungibleLocalId,
    pub lsu: ResourceAddress,
    pub claim_nft: ResourceAddress,
    pub access_controller: ComponentAddress,
    pub locker: ComponentAddress,
    pub identity: ComponentAddress,
    /// global puppet (package P), fields of plain values
    pub gp: ComponentAddress,
    /// global puppet (package P) owning a fungible vault (field 0), a non-fungible vault (field 1)
    /// and an XRD vault (field 2)
    pub holder: ComponentAddress,
    pub holder_vaults: Vec<(NodeId, ResourceAddress)>,
    pub wasm_code: Vec<u8>,
    /// problems the scans report on the frozen world itself (must be empty; kept for the message)
    pub base_problems: Vec<String>,
}

static LABELS: Mutex<BTreeMap<String, &'static str>> = Mutex::new(BTreeMap::new());

/// Interned static label (the set of labels is bounded by the catalogue).
pub fn intern(s: &str) -> &'static str {
    let mut m = LABELS.lock().unwrap();
    if let Some(x) = m.get(s) {
        return x;
    }
    let leaked: &'static str = Box::leak(s.to_string().into_boxed_str());
    m.insert(s.to_string(), leaked);
    leaked
}

fn must(w: &mut World, what: &str, m: TransactionManifestV1, proofs: Vec<NonFungibleGlobalId>) -> TransactionReceipt {
    let r = w.run(m, proofs);
    if !r.is_success() {
        panic!("vf-eng-e world build failed at {}: {}", what, r.outcome_string());
    }
    r.receipt.unwrap()
}

pub fn all_badges(w: &World) -> Vec<NonFungibleGlobalId> {
    w.accounts.iter().map(|a| a.badge()).collect()
}

const TINY_WAT: &str = r#"
(module
  (import "env" "buffer_consume" (func $buffer_consume (param i32 i32)))
  (memory $0 1)
  (export "memory" (memory $0))
  (func $Test_f (param $0 i64) (result i64)
    (i32.store8 (i32.const 0) (i32.const 92))
    (i32.store8 (i32.const 1) (i32.const 33))
    (i32.store8 (i32.const 2) (i32.const 0))
    (i64.const 3)
  )
  (export "Test_f" (func $Test_f))
  (func $scrypto_alloc (param $0 i32) (result i32) (i32.const 0))
  (export "scrypto_alloc" (func $scrypto_alloc))
  (func $scrypto_free (param $0 i32))
  (export "scrypto_free" (func $scrypto_free))
)
"#;

pub fn build(w: &mut World) {
    let badge_rule = rule!(require(w.badge));
    let a0 = w.accounts[0].address;
    let a1 = w.accounts[1].address;
    let f0 = w.fungibles[0].address;
    let f1 = w.fungibles[1].address;
    let f2 = w.fungibles[2].address;
    let nf0 = w.non_fungibles[0].address;
    let sigs = all_badges(w);

    // ---- pools ----
    let mut pool_units = Vec::new();
    let r = must(
        w,
        "one-resource pool",
        ManifestBuilder::new()
            .lock_fee_from_faucet()
            .call_function(
                POOL_PACKAGE,
                ONE_RESOURCE_POOL_BLUEPRINT,
                ONE_RESOURCE_POOL_INSTANTIATE_IDENT,
                OneResourcePoolInstantiateManifestInput { owner_role: OwnerRole::Fixed(badge_rule.clone()).into(), pool_manager_rule: badge_rule.clone().into(), resource_address: f0.into(), address_reservation: None },
            )
            .build(),
        vec![],
    );
    let one_pool = r.expect_commit(true).new_component_addresses()[0];
    pool_units.push(r.expect_commit(true).new_resource_addresses()[0]);
    let r = must(
        w,
        "two-resource pool",
        ManifestBuilder::new()
            .lock_fee_from_faucet()
            .call_function(
                POOL_PACKAGE,
                TWO_RESOURCE_POOL_BLUEPRINT,
                TWO_RESOURCE_POOL_INSTANTIATE_IDENT,
                TwoResourcePoolInstantiateManifestInput {
                    owner_role: OwnerRole::Fixed(badge_rule.clone()).into(),
                    pool_manager_rule: badge_rule.clone().into(),
                    resource_addresses: (f0.into(), XRD.into()),
                    address_reservation: None,
                },
            )
            .build(),
        vec![],
    );
    let two_pool = r.expect_commit(true).new_component_addresses()[0];
    pool_units.push(r.expect_commit(true).new_resource_addresses()[0]);
    let r = must(
        w,
        "multi-resource pool",
        ManifestBuilder::new()
            .lock_fee_from_faucet()
            .call_function(
                POOL_PACKAGE,
                MULTI_RESOURCE_POOL_BLUEPRINT,
                MULTI_RESOURCE_POOL_INSTANTIATE_IDENT,
                MultiResourcePoolInstantiateManifestInput {
                    owner_role: OwnerRole::Fixed(badge_rule.clone()).into(),
                    pool_manager_rule: badge_rule.clone().into(),
                    resource_addresses: [f0, f1, f2].into_iter().map(|r| r.into()).collect(),
                    address_reservation: None,
                },
            )
            .build(),
        vec![],
    );
    let multi_pool = r.expect_commit(true).new_component_addresses()[0];
    pool_units.push(r.expect_commit(true).new_resource_addresses()[0]);
    // contributions by account 1 (pool manager proof from account 0)
    must(
        w,
        "pool contributions",
        ManifestBuilder::new()
            .lock_fee_from_faucet()
            .create_proof_from_account_of_amount(a0, w.badge, dec!(1))
            .withdraw_from_account(a1, f0, dec!(600))
            .withdraw_from_account(a1, f1, dec!(100))
            .withdraw_from_account(a1, f2, dec!(100))
            .withdraw_from_account(a1, XRD, dec!(500))
            .take_from_worktop(f0, dec!(100), "o")
            .take_from_worktop(f0, dec!(200), "t0")
            .take_from_worktop(XRD, dec!(300), "t1")
            .take_from_worktop(f0, dec!(300), "m0")
            .take_from_worktop(f1, dec!(100), "m1")
            .take_from_worktop(f2, dec!(100), "m2")
            .with_name_lookup(|b, l| {
                b.call_method(one_pool, ONE_RESOURCE_POOL_CONTRIBUTE_IDENT, OneResourcePoolContributeManifestInput { bucket: l.bucket("o") })
                    .call_method(two_pool, TWO_RESOURCE_POOL_CONTRIBUTE_IDENT, TwoResourcePoolContributeManifestInput { buckets: (l.bucket("t0"), l.bucket("t1")) })
                    .call_method(
                        multi_pool,
                        MULTI_RESOURCE_POOL_CONTRIBUTE_IDENT,
                        MultiResourcePoolContributeManifestInput { buckets: ManifestBucketBatch::from_buckets([l.bucket("m0"), l.bucket("m1"), l.bucket("m2")]) },
                    )
            })
            .try_deposit_entire_worktop_or_abort(a1, None)
            .build(),
        sigs.clone(),
    );

    // ---- validator (owner badge in account 0), stake by account 1, partly unstaked ----
    let pk0 = match &w.accounts[0].key {
        Key::Secp(p, _) => *p,
        _ => unreachable!(),
    };
    let validator = w.sim.new_staked_validator_with_pub_key(pk0, a0);
    let validator_badge_id = NonFungibleLocalId::bytes(validator.as_node_id().0).unwrap();
    let vs = w.sim.get_validator_info(validator);
    let lsu = vs.stake_unit_resource;
    let claim_nft = vs.claim_nft;
    must(
        w,
        "validator register / stake / unstake",
        ManifestBuilder::new()
            .lock_fee_from_faucet()
            .create_proof_from_account_of_non_fungibles(a0, VALIDATOR_OWNER_BADGE, [validator_badge_id.clone()])
            .register_validator(validator)
            .call_method(validator, VALIDATOR_UPDATE_ACCEPT_DELEGATED_STAKE_IDENT, ValidatorUpdateAcceptDelegatedStakeInput { accept_delegated_stake: true })
            .withdraw_from_account(a1, XRD, dec!(1000))
            .take_all_from_worktop(XRD, "x")
            .stake_validator(validator, "x")
            .take_from_worktop(lsu, dec!(100), "u")
            .unstake_validator(validator, "u")
            .try_deposit_entire_worktop_or_abort(a1, None)
            .build(),
        sigs.clone(),
    );

    // ---- access controller over 2 units of the world badge ----
    let r = must(
        w,
        "access controller",
        ManifestBuilder::new()
            .lock_fee_from_faucet()
            .withdraw_from_account(a0, w.badge, dec!(2))
            .take_all_from_worktop(w.badge, "b")
            .create_access_controller("b", badge_rule.clone(), rule!(require(w.accounts[1].badge())), rule!(require(w.accounts[2].badge())), Some(1))
            .build(),
        sigs.clone(),
    );
    let access_controller = r.expect_commit(true).new_component_addresses()[0];

    // ---- account locker holding something for accounts 1 and 2 ----
    let r = must(
        w,
        "account locker",
        ManifestBuilder::new()
            .lock_fee_from_faucet()
            .call_function(
                LOCKER_PACKAGE,
                ACCOUNT_LOCKER_BLUEPRINT,
                ACCOUNT_LOCKER_INSTANTIATE_IDENT,
                AccountLockerInstantiateManifestInput {
                    owner_role: OwnerRole::Fixed(badge_rule.clone()).into(),
                    storer_role: badge_rule.clone().into(),
                    storer_updater_role: badge_rule.clone().into(),
                    recoverer_role: badge_rule.clone().into(),
                    recoverer_updater_role: badge_rule.clone().into(),
                    address_reservation: None,
                },
            )
            .build(),
        vec![],
    );
    let locker = r.expect_commit(true).new_component_addresses()[0];
    let nf0_ids: Vec<NonFungibleLocalId> = w.non_fungibles[0].initial_ids.iter().filter(|(a, _)| *a == 0).map(|(_, id)| id.clone()).take(1).collect();
    must(
        w,
        "locker store",
        ManifestBuilder::new()
            .lock_fee_from_faucet()
            .create_proof_from_account_of_amount(a0, w.badge, dec!(1))
            .withdraw_from_account(a0, f0, dec!(50))
            .withdraw_non_fungibles_from_account(a0, nf0, nf0_ids)
            .take_all_from_worktop(f0, "f")
            .take_all_from_worktop(nf0, "n")
            .with_name_lookup(|b, l| {
                b.call_method(locker, ACCOUNT_LOCKER_STORE_IDENT, AccountLockerStoreManifestInput { claimant: a1.into(), bucket: l.bucket("f"), try_direct_send: false })
                    .call_method(locker, ACCOUNT_LOCKER_STORE_IDENT, AccountLockerStoreManifestInput { claimant: w.accounts[2].address.into(), bucket: l.bucket("n"), try_direct_send: false })
            })
            .build(),
        sigs.clone(),
    );

    // ---- identity ----
    let r = must(w, "identity", ManifestBuilder::new().lock_fee_from_faucet().create_identity_advanced(OwnerRole::Fixed(badge_rule.clone())).build(), vec![]);
    let identity = r.expect_commit(true).new_component_addresses()[0];

    // ---- puppets ----
    let mut b = B::new();
    let o = b.op(Op::NewObject { blueprint: PUPPET_BLUEPRINT.into(), fields: vec![(0, enc(&v_u32(10)), false), (1, enc(&v_u32(11)), false), (2, enc(&v_u32(12)), false)], kv: vec![] }, 1);
    b.op(Op::Globalize { object: N::Slot(o), owner: OwnerSpec::Updatable(badge_rule.clone()), reservation: None, with_royalty: true }, 1);
    let r = must(w, "puppet gp", ManifestBuilder::new().lock_fee_from_faucet().call_function_raw(w.puppet_p, PUPPET_BLUEPRINT, PUPPET_RUN, script_manifest_args(&b.script())).build(), vec![]);
    let gp = r.expect_commit(true).new_component_addresses()[0];

    // holder: buckets come in through the script payload (marker Owns -> manifest buckets)
    let mut b = B::new();
    let first = b.op(Op::Import(v_tuple(vec![v_own_lit(marker(0, 0)), v_own_lit(marker(0, 1)), v_own_lit(marker(0, 2))])), 3);
    let refs = b.import_refs(&[f0.into_node_id(), nf0.into_node_id(), XRD.into_node_id()]);
    let mut vault_slots = Vec::new();
    for i in 0..3u8 {
        let v = b.op(Op::CallMethod { receiver: N::Slot(refs + i), method: RESOURCE_MANAGER_CREATE_EMPTY_VAULT_IDENT.into(), args: enc(&v_unit()) }, 2) + 1;
        b.op(Op::CallMethod { receiver: N::Slot(v), method: VAULT_PUT_IDENT.into(), args: enc(&v_tuple(vec![v_own(first + i)])) }, 1);
        vault_slots.push(v);
    }
    let o = b.op(
        Op::NewObject {
            blueprint: PUPPET_BLUEPRINT.into(),
            fields: (0..3u8).map(|i| (i, enc(&v_tuple(vec![v_own(vault_slots[i as usize])])), false)).collect(),
            kv: vec![],
        },
        1,
    );
    b.op(Op::Globalize { object: N::Slot(o), owner: OwnerSpec::None, reservation: None, with_royalty: false }, 1);
    let holder_ids: Vec<NonFungibleLocalId> = w.non_fungibles[0].initial_ids.iter().filter(|(a, _)| *a == 1).map(|(_, id)| id.clone()).take(2).collect();
    let r = must(
        w,
        "puppet holder",
        ManifestBuilder::new()
            .lock_fee_from_faucet()
            .withdraw_from_account(a1, f0, dec!(500))
            .withdraw_non_fungibles_from_account(a1, nf0, holder_ids)
            .withdraw_from_account(a1, XRD, dec!(500))
            .take_all_from_worktop(f0, "b0")
            .take_all_from_worktop(nf0, "b1")
            .take_all_from_worktop(XRD, "b2")
            .call_function_raw(w.puppet_p, PUPPET_BLUEPRINT, PUPPET_RUN, script_manifest_args(&b.script()))
            .build(),
        sigs.clone(),
    );
    let holder = r.expect_commit(true).new_component_addresses()[0];
    let mut holder_vaults = Vec::new();
    for res in [f0, nf0, XRD] {
        for v in w.sim.get_component_vaults(holder, res) {
            holder_vaults.push((v, res));
        }
    }
    assert_eq!(holder_vaults.len(), 3, "holder vaults");

    // ---- resources the accounts hold ----
    let mut resources = vec![
        ResInfo { address: XRD, kind: ResKind::Fungible { divisibility: 18 }, name: "XRD" },
        ResInfo { address: w.badge, kind: ResKind::Fungible { divisibility: 0 }, name: "badge" },
    ];
    for (i, f) in w.fungibles.iter().enumerate() {
        resources.push(ResInfo { address: f.address, kind: ResKind::Fungible { divisibility: f.divisibility }, name: ["F0", "F1", "F2", "F3", "F4"][i] });
    }
    for (i, n) in w.non_fungibles.iter().enumerate() {
        resources.push(ResInfo { address: n.address, kind: ResKind::NonFungible, name: ["NF-int", "NF-str", "NF-bytes", "NF-ruid"][i] });
    }
    for (i, u) in pool_units.iter().enumerate() {
        resources.push(ResInfo { address: *u, kind: ResKind::Fungible { divisibility: 18 }, name: ["unit-one", "unit-two", "unit-multi"][i] });
    }
    resources.push(ResInfo { address: lsu, kind: ResKind::Fungible { divisibility: 18 }, name: "LSU" });
    resources.push(ResInfo { address: claim_nft, kind: ResKind::NonFungible, name: "claim-nft" });
    resources.push(ResInfo { address: VALIDATOR_OWNER_BADGE, kind: ResKind::NonFungible, name: "validator-owner-badge" });

    // ---- catalogue ----
    let mut packages = w.sim.find_all_packages();
    packages.sort();
    let mut targets = Vec::new();
    let mut by_blueprint: BTreeMap<(PackageAddress, String), Vec<usize>> = BTreeMap::new();
    let mut schemas = BTreeMap::new();
    for p in &packages {
        if *p == w.puppet_p || *p == w.puppet_q {
            continue;
        }
        for (h, s) in w.sim.get_package_radix_blueprint_schema_inits(p) {
            schemas.insert((*p, h), Rc::new(s));
        }
        let native = {
            let reader = SystemDatabaseReader::new(w.db());
            let mut native = false;
            if let Ok(iter) = reader.collection_iter(p.as_node_id(), ModuleId::Main, PackageCollection::CodeVmTypeKeyValue.collection_index()) {
                for (_, v) in iter {
                    if let Ok(t) = scrypto_decode::<PackageCodeVmTypeEntryPayload>(&v) {
                        if t.fully_update_and_into_latest_version().vm_type == VmType::Native {
                            native = true;
                        }
                    }
                }
            }
            native
        };
        let module = if *p == METADATA_MODULE_PACKAGE {
            Module::Metadata
        } else if *p == ROYALTY_MODULE_PACKAGE {
            Module::Royalty
        } else if *p == ROLE_ASSIGNMENT_MODULE_PACKAGE {
            Module::RoleAssignment
        } else {
            Module::Main
        };
        let defs = w.sim.get_package_blueprint_definitions(p);
        let mut defs: Vec<(BlueprintVersionKey, BlueprintDefinition)> = defs.into_iter().collect();
        defs.sort_by(|a, b| a.0.blueprint.cmp(&b.0.blueprint));
        for (key, def) in defs {
            let mut fns: Vec<(&String, &FunctionSchema)> = def.interface.functions.iter().collect();
            fns.sort_by(|a, b| a.0.cmp(b.0));
            for (ident, f) in fns {
                let receiver = f.receiver.as_ref().map(|r| (r.ref_types.contains(RefTypes::NORMAL), r.ref_types.contains(RefTypes::DIRECT_ACCESS)));
                let input = match &f.input {
                    BlueprintPayloadDef::Static(ScopedTypeId(h, id)) => Some((*h, *id)),
                    BlueprintPayloadDef::Generic(_) => None,
                };
                let idx = targets.len();
                targets.push(Target {
                    package: *p,
                    blueprint: key.blueprint.clone(),
                    ident: ident.clone(),
                    receiver,
                    module,
                    input,
                    label: intern(&format!("{}::{}", key.blueprint, ident)),
                    native,
                });
                by_blueprint.entry((*p, key.blueprint.clone())).or_default().push(idx);
            }
        }
    }

    // ---- globals by blueprint, components, vaults ----
    let mut globals: BTreeMap<(PackageAddress, String), Vec<GlobalAddress>> = BTreeMap::new();
    let mut components = Vec::new();
    let mut all_resources = Vec::new();
    for node in all_nodes(w.db()) {
        if !node.entity_type().map(|e| e.is_global()).unwrap_or(false) {
            continue;
        }
        let Ok(ga) = GlobalAddress::try_from(node) else { continue };
        if let Some(radix_engine::system::type_info::TypeInfoSubstate::Object(o)) = type_info(w.db(), &node) {
            globals.entry((o.blueprint_info.blueprint_id.package_address, o.blueprint_info.blueprint_id.blueprint_name.clone())).or_default().push(ga);
        }
        if ComponentAddress::try_from(node).is_ok() {
            components.push(ga);
        }
        if let Ok(r) = ResourceAddress::try_from(node) {
            all_resources.push(r);
        }
    }
    let mut vaults = Vec::new();
    let mut account_vaults: BTreeMap<(usize, ResourceAddress), Vec<NodeId>> = BTreeMap::new();
    for (i, a) in w.accounts.clone().iter().enumerate() {
        for r in &resources {
            let vs = w.sim.get_component_vaults(a.address, r.address);
            for v in &vs {
                vaults.push(InternalAddress::try_from(*v).unwrap());
            }
            if !vs.is_empty() {
                account_vaults.insert((i, r.address), vs);
            }
        }
    }
    for (v, _) in &holder_vaults {
        vaults.push(InternalAddress::try_from(*v).unwrap());
    }

    let wasm_code = scrypto_test::prelude::wat2wasm(TINY_WAT);
    let mut base_problems = Totals::scan(w.db()).supply_problems();
    let scan = vf_eng_c::scan::scan_ledger(w.db(), &vf_eng_c::scan::ScanOptions { validate_only: None });
    base_problems.extend(scan.problems.iter().map(|p| format!("{}: {}", p.class, p.detail)));
    if let Err(e) = vf_eng_c::scan::repo_checkers(w.db()) {
        base_problems.push(e);
    }

    w.set_ext(Rc::new(Ext {
        targets,
        by_blueprint,
        schemas,
        globals,
        components,
        packages,
        all_resources,
        resources,
        vaults,
        account_vaults,
        one_pool,
        two_pool,
        multi_pool,
        pool_units,
        validator,
        validator_badge_id,
        lsu,
        claim_nft,
        access_controller,
        locker,
        identity,
        gp,
        holder,
        holder_vaults,
        wasm_code,
        base_problems,
    }));
}

impl Ext {
    /// An account that held the resource in the frozen world (7 in 8), else any account.
    pub fn pick_holder(&self, g: &mut vf_core::Gen, res: &ResourceAddress) -> usize {
        let holders: Vec<usize> = (0..4usize).filter(|a| self.account_vaults.contains_key(&(*a, *res))).collect();
        if holders.is_empty() || g.chance(1, 8) {
            g.index(4)
        } else {
            holders[g.index(holders.len())]
        }
    }
    pub fn res_info(&self, r: &ResourceAddress) -> Option<&ResInfo> {
        self.resources.iter().find(|x| x.address == *r)
    }
    pub fn schema(&self, p: &PackageAddress, h: &SchemaHash) -> Option<Rc<VersionedScryptoSchema>> {
        self.schemas.get(&(*p, *h)).cloned()
    }
    /// Resources "related" to a component (what its methods usually want).
    pub fn related_resources(&self, a: &GlobalAddress) -> Vec<ResourceAddress> {
        let n = a.as_node_id();
        if *n == *self.one_pool.as_node_id() {
            vec![self.pool_units[0], self.resources[2].address]
        } else if *n == *self.two_pool.as_node_id() {
            vec![self.pool_units[1], self.resources[2].address, XRD]
        } else if *n == *self.multi_pool.as_node_id() {
            vec![self.pool_units[2], self.resources[2].address, self.resources[3].address, self.resources[4].address]
        } else if *n == *self.validator.as_node_id() {
            vec![XRD, self.lsu, self.claim_nft]
        } else if *n == *self.access_controller.as_node_id() {
            vec![self.resources[1].address, XRD]
        } else if *n == *CONSENSUS_MANAGER.as_node_id() {
            vec![XRD]
        } else {
            vec![]
        }
    }
}

/// Current balance of an account in a resource, from the vaults known in the frozen world.
pub fn account_holding(ext: &Ext, t: &Totals, acct: usize, res: &ResourceAddress) -> (Decimal, BTreeSet<NonFungibleLocalId>) {
    let mut amount = Decimal::ZERO;
    let mut ids = BTreeSet::new();
    if let Some(vs) = ext.account_vaults.get(&(acct, *res)) {
        for v in vs {
            if let Some((_, b)) = t.fungible_vaults.get(v) {
                amount = amount.checked_add(*b).unwrap_or(amount);
            }
            if let Some((_, b, i)) = t.non_fungible_vaults.get(v) {
                amount = amount.checked_add(*b).unwrap_or(amount);
                ids.extend(i.iter().cloned());
            }
        }
    }
    (amount, ids)
}

/// Development aid: prints the catalogue (`vf-eng-e dump-catalogue`).
pub fn dump_catalogue() {
    with_world(WORLD_KEY, no_genesis, build, |w| {
        let ext = w.ext::<Rc<Ext>>().clone();
        println!("{} targets, {} blueprints, {} packages, {} components, {} resources, {} vaults", ext.targets.len(), ext.by_blueprint.len(), ext.packages.len(), ext.components.len(), ext.all_resources.len(), ext.vaults.len());
        println!("base problems: {:?}", ext.base_problems);
        for t in &ext.targets {
            let inst = ext.globals.get(&(t.package, t.blueprint.clone())).map(|v| v.len()).unwrap_or(0);
            println!("{:60} recv {:?} module {:?} native {} input {:?} instances {}", t.label, t.receiver, t.module, t.native, t.input.map(|x| x.1), inst);
        }
    });
}
