//! C30 Decompiled manifests compile back to the same manifest.

use crate::lifecycle;
use crate::mgen::{self, Kind, Options};
use radix_common::prelude::*;
use radix_transactions::manifest::*;
use radix_transactions::prelude::*;
use vf_core::{catch, ensure, Check, Gen, Outcome, Part};

pub fn blobs_of(m: &AnyManifest) -> IndexMap<Hash, Vec<u8>> {
    match m {
        AnyManifest::V1(x) => x.blobs.clone(),
        AnyManifest::SystemV1(x) => x.blobs.clone(),
        AnyManifest::V2(x) => x.blobs.clone(),
        AnyManifest::SubintentV2(x) => x.blobs.clone(),
    }
}

fn names_of(m: &AnyManifest) -> &ManifestObjectNames {
    match m {
        AnyManifest::V1(x) => &x.object_names,
        AnyManifest::SystemV1(x) => &x.object_names,
        AnyManifest::V2(x) => &x.object_names,
        AnyManifest::SubintentV2(x) => &x.object_names,
    }
}

fn without_names(m: &AnyManifest) -> AnyManifest {
    let mut m = m.clone();
    match &mut m {
        AnyManifest::V1(x) => x.object_names = ManifestObjectNames::Unknown,
        AnyManifest::SystemV1(x) => x.object_names = ManifestObjectNames::Unknown,
        AnyManifest::V2(x) => x.object_names = ManifestObjectNames::Unknown,
        AnyManifest::SubintentV2(x) => x.object_names = ManifestObjectNames::Unknown,
    }
    m
}

/// Names the recompiled manifest must carry: the known name of every created object, or the
/// documented default (`bucket{n+1}`, `proof{n+1}`, `reservation{n+1}`, `address{n+1}`, `intent{n+1}`).
fn expected_names(original: &ManifestObjectNames, buckets: usize, proofs: usize, reservations: usize, addresses: usize, intents: usize) -> KnownManifestObjectNames {
    let known = match original {
        ManifestObjectNames::Known(k) => Some(k),
        ManifestObjectNames::Unknown => None,
    };
    let mut out = KnownManifestObjectNames::default();
    for i in 0..buckets as u32 {
        let name = known.and_then(|k| k.bucket_names.get(&ManifestBucket(i)).cloned()).unwrap_or_else(|| format!("bucket{}", i + 1));
        out.bucket_names.insert(ManifestBucket(i), name);
    }
    for i in 0..proofs as u32 {
        let name = known.and_then(|k| k.proof_names.get(&ManifestProof(i)).cloned()).unwrap_or_else(|| format!("proof{}", i + 1));
        out.proof_names.insert(ManifestProof(i), name);
    }
    for i in 0..reservations as u32 {
        let name = known.and_then(|k| k.address_reservation_names.get(&ManifestAddressReservation(i)).cloned()).unwrap_or_else(|| format!("reservation{}", i + 1));
        out.address_reservation_names.insert(ManifestAddressReservation(i), name);
    }
    for i in 0..addresses as u32 {
        let name = known.and_then(|k| k.address_names.get(&ManifestNamedAddress(i)).cloned()).unwrap_or_else(|| format!("address{}", i + 1));
        out.address_names.insert(ManifestNamedAddress(i), name);
    }
    for i in 0..intents as u32 {
        let name = known.and_then(|k| k.intent_names.get(&ManifestNamedIntent(i)).cloned()).unwrap_or_else(|| format!("intent{}", i + 1));
        out.intent_names.insert(ManifestNamedIntent(i), name);
    }
    out
}

/// Does any known object name contain a character that must be escaped inside a string literal?
fn names_need_escaping(n: &ManifestObjectNames) -> bool {
    let bad = |s: &String| s.contains('"') || s.contains('\\');
    match n {
        ManifestObjectNames::Unknown => false,
        ManifestObjectNames::Known(k) => {
            k.bucket_names.values().any(bad)
                || k.proof_names.values().any(bad)
                || k.address_reservation_names.values().any(bad)
                || k.address_names.values().any(bad)
                || k.intent_names.values().any(bad)
        }
    }
}

/// Instruction names the decompiler prints instead of `CALL_*` (the compiler maps them back).
const ALIASES: &[&str] = &[
    "PUBLISH_PACKAGE", "PUBLISH_PACKAGE_ADVANCED", "CREATE_ACCOUNT_ADVANCED", "CREATE_ACCOUNT", "CREATE_IDENTITY_ADVANCED", "CREATE_IDENTITY", "CREATE_ACCESS_CONTROLLER",
    "CREATE_FUNGIBLE_RESOURCE", "CREATE_FUNGIBLE_RESOURCE_WITH_INITIAL_SUPPLY", "CREATE_NON_FUNGIBLE_RESOURCE", "CREATE_NON_FUNGIBLE_RESOURCE_WITH_INITIAL_SUPPLY",
    "CLAIM_PACKAGE_ROYALTIES", "MINT_FUNGIBLE", "MINT_NON_FUNGIBLE", "MINT_RUID_NON_FUNGIBLE", "CREATE_VALIDATOR", "SET_COMPONENT_ROYALTY", "LOCK_COMPONENT_ROYALTY",
    "CLAIM_COMPONENT_ROYALTIES", "SET_METADATA", "REMOVE_METADATA", "LOCK_METADATA", "SET_OWNER_ROLE", "LOCK_OWNER_ROLE", "SET_ROLE", "RECALL_FROM_VAULT", "FREEZE_VAULT",
    "UNFREEZE_VAULT", "RECALL_NON_FUNGIBLES_FROM_VAULT",
];

/// Signature of a recompilation failure. One class has a known single cause: the compiler's id
/// validator does not look at the arguments of alias instructions, so a bucket stays "locked" after
/// its proof was passed to one of them.
fn locked_after_alias(diagnostic: &str, text: &str) -> String {
    let mut proof_in_alias = false;
    let mut in_alias = false;
    for line in text.split('\n') {
        if !line.starts_with(' ') {
            let cmd = line.trim_end_matches(';');
            in_alias = ALIASES.contains(&cmd);
        } else if in_alias && line.contains("Proof(\"") {
            proof_in_alias = true;
        }
    }
    if proof_in_alias && diagnostic.contains("believed to be currently locked") {
        "decompiler output does not compile: bucket still locked after its proof was passed to an alias instruction (compiler skips id validation of alias arguments)".to_string()
    } else {
        "decompiler output does not compile".to_string()
    }
}

fn first_difference(a: &AnyManifest, b: &AnyManifest) -> String {
    let va = lifecycle::view(a);
    let vb = lifecycle::view(b);
    if va.instructions.len() != vb.instructions.len() {
        return format!("instruction count {} vs {}", va.instructions.len(), vb.instructions.len());
    }
    for (i, (x, y)) in va.instructions.iter().zip(vb.instructions.iter()).enumerate() {
        if x != y {
            return format!("instruction {}:\n  original:   {:?}\n  recompiled: {:?}", i, x, y);
        }
    }
    if blobs_of(a) != blobs_of(b) || blobs_of(a).keys().collect::<Vec<_>>() != blobs_of(b).keys().collect::<Vec<_>>() {
        return "blobs differ".into();
    }
    "children / preallocated addresses differ".into()
}

fn clip(s: &str, n: usize) -> String {
    if s.len() <= n {
        return s.to_string();
    }
    let mut cut = n;
    while !s.is_char_boundary(cut) {
        cut -= 1;
    }
    format!("{}…", &s[..cut])
}

fn compile(text: &str, kind: Kind, network: &NetworkDefinition, blobs: IndexMap<Hash, Vec<u8>>) -> Result<Result<AnyManifest, String>, String> {
    let text = text.to_string();
    let network = network.clone();
    catch(move || {
        compile_any_manifest(&text, kind.manifest_kind(), &network, BlobProvider::new_with_prehashed_blobs(blobs)).map_err(|e| {
            // the diagnostics renderer is C31's subject; keep this path panic-proof
            let t2 = text.clone();
            let e2 = e.clone();
            catch(move || compile_error_diagnostics(&t2, e2, CompileErrorDiagnosticsStyle::PlainText)).unwrap_or_else(|_| format!("{:?}", e))
        })
    })
}

pub fn roundtrip(g: &mut Gen, opts: &Options) -> Outcome {
    let generated = mgen::generate(g, opts);
    let m = generated.manifest.clone();
    let kind = generated.kind;
    let st = &generated.stats;
    g.label(kind.name());
    g.label(st.names);
    for v in &st.variants {
        g.label(v);
    }
    let network = if g.chance(1, 4) { NetworkDefinition::mainnet() } else { NetworkDefinition::simulator() };

    // domain: a manifest that exists as a payload and passes static validation
    {
        let v = lifecycle::view(&m);
        if v.instructions.is_empty() && v.children == 0 && v.preallocated == 0 {
            // decompiles to the empty text, which the parser rejects on purpose (`Parser::new` on an
            // empty token list => UnexpectedEof): the one manifest with no text form
            g.label("discarded: empty manifest (no text form: the compiler rejects empty input by design)");
            return Outcome::Discard;
        }
    }
    let m1 = m.clone();
    let encodable = catch(move || manifest_encode(&m1).is_ok()).unwrap_or(false);
    if !encodable {
        g.label("discarded: manifest not encodable (nesting beyond the SBOR depth limit)");
        return Outcome::Discard;
    }
    let m1 = m.clone();
    match catch(move || m1.validate(ValidationRuleset::all())) {
        Ok(Ok(())) => {}
        Ok(Err(e)) => {
            g.label("discarded: generated manifest fails static validation");
            g.label(crate::c36::error_class(&e));
            return Outcome::Discard;
        }
        Err(p) => return Outcome::fail("static validation panics", format!("{}", p)),
    }

    let m1 = m.clone();
    let n1 = network.clone();
    let text = match catch(move || decompile_any(&m1, &n1)) {
        Err(p) => return Outcome::fail("decompile panics on a statically valid manifest", format!("{}\n{:?}", p, m)),
        Ok(Err(e)) => return Outcome::fail("decompile fails on a statically valid manifest", format!("{:?}\n{:?}", e, m)),
        Ok(Ok(t)) => t,
    };
    let deep = st.max_arg_depth >= 4; // args tuple + value of depth >= 3
    let escapes = st.values.escape_strings > 0;
    let objects = st.buckets + st.proofs + st.named_addresses > 0;
    if deep {
        g.label("argument value of depth >= 3");
    }
    if escapes {
        g.label("string needing escapes");
    }
    if st.values.non_bmp > 0 {
        g.label("non-BMP character");
    }
    if st.aliases > 0 {
        g.label("alias instruction candidates");
    }
    if st.blob_refs > 0 {
        g.label("blob referenced");
    }
    if st.blobs > 0 && st.blob_refs == 0 {
        g.label("blob unreferenced");
    }
    if st.max_arg_depth >= 14 {
        g.label("argument nested >= 14 deep");
    }
    if st.calls > 0 && (deep || escapes) && objects {
        g.nontrivial();
    }
    g.sample(|| clip(&text, 1400));
    if text.split('\n').any(|l| ALIASES.contains(&l.trim_end_matches(';'))) {
        g.label("alias instruction in the decompiled text");
    }
    if names_need_escaping(names_of(&m)) {
        g.label("object name containing a quote or backslash");
    }

    let m2 = match compile(&text, kind, &network, blobs_of(&m)) {
        Err(p) => return Outcome::fail("compile panics on decompiler output", format!("{}\n{}", p, clip(&text, 3000))),
        Ok(Err(diag)) => {
            return Outcome::fail(locked_after_alias(&diag, &text), format!("{}\n--- decompiled text ---\n{}", clip(&diag, 1500), clip(&text, 3000)));
        }
        Ok(Ok(m2)) => m2,
    };
    ensure!(
        without_names(&m2) == without_names(&m),
        "compile(decompile(m)) differs from m (instructions / blobs / children / preallocated addresses)",
        "{}\n--- decompiled text ---\n{}",
        clip(&first_difference(&m, &m2), 2500),
        clip(&text, 3000)
    );
    // blob order is part of the payload
    let (b1, b2) = (blobs_of(&m), blobs_of(&m2));
    ensure!(b1.keys().collect::<Vec<_>>() == b2.keys().collect::<Vec<_>>(), "compile(decompile(m)) reorders blobs", "{:?} vs {:?}", b1.keys(), b2.keys());

    // names: known names are kept, absent ones are the documented defaults
    let report = lifecycle::run_model(&lifecycle::view(&m));
    let expect = expected_names(names_of(&m), report.buckets_created, report.proofs_created, report.reservations_created, report.named_addresses_created, st.children);
    match names_of(&m2) {
        ManifestObjectNames::Known(k) => {
            ensure!(*k == expect, "compile(decompile(m)) changes object names", "expected {:?}\nactual   {:?}\n{}", expect, k, clip(&text, 2000));
        }
        ManifestObjectNames::Unknown => return Outcome::fail("compile(decompile(m)) has no object names", clip(&text, 2000)),
    }

    // fixpoint
    let m2c = m2.clone();
    let n1 = network.clone();
    let text2 = match catch(move || decompile_any(&m2c, &n1)) {
        Ok(Ok(t)) => t,
        Ok(Err(e)) => return Outcome::fail("decompile fails on a recompiled manifest", format!("{:?}\n{}", e, clip(&text, 2000))),
        Err(p) => return Outcome::fail("decompile panics on a recompiled manifest", format!("{}\n{}", p, clip(&text, 2000))),
    };
    ensure!(text2 == text, "decompile(compile(decompile(m))) != decompile(m)", "first:\n{}\nsecond:\n{}", clip(&text, 2000), clip(&text2, 2000));
    match compile(&text2, kind, &network, blobs_of(&m2)) {
        Ok(Ok(m3)) => {
            ensure!(m3 == m2, "compile is not a fixpoint on recompiled manifests", "{}", clip(&text2, 2000));
        }
        Ok(Err(d)) => return Outcome::fail("decompiler output does not compile", format!("second round: {}\n{}", clip(&d, 1500), clip(&text2, 2000))),
        Err(p) => return Outcome::fail("compile panics on decompiler output", format!("second round: {}\n{}", p, clip(&text2, 2000))),
    }
    Outcome::Pass
}

fn case(g: &mut Gen) -> Outcome {
    roundtrip(g, &Options::default())
}

pub fn check() -> Check {
    Check::new(
        "C30",
        "Decompiled manifests compile back to the same manifest",
        "Manifests of the four kinds (V1, SystemV1 with preallocated addresses, V2 with children, SubintentV2) from the typed generator: every instruction variant incl. the alias forms, call arguments of every manifest value kind (odd strings, non-BMP, decimals at limits, nested enums/maps/arrays, custom kinds, near-limit nesting), ids allocated so that static validation accepts, blobs referenced and unreferenced, object names unknown / complete / partial incl. odd names. For each statically valid, encodable manifest: decompile succeeds, compile of the text (same network, same blobs) yields the same instructions, blobs (and order), children, preallocated addresses, and exactly the known-or-default object names; a second decompile/compile round is a fixpoint. Non-trivial = >= 1 call carrying a value of depth >= 3 or a string needing escapes, and >= 1 bucket / proof / named address. Distinct = distinct decoded choice sequences.",
    )
    .assume("manifests are those a payload decoder can produce: internally valid custom values, element kinds consistent, the whole manifest encodable")
    .assume("partial object names never coincide with the decompiler's default names of other objects")
    .part(Part::new("roundtrip", 600_000, 24_000_000, 2048, case))
    .min_nontrivial_pct(20.0)
}
