//! C44: consensus time and rounds only move forward.
//!
//! Histories of 1-60 transactions against the consensus manager of worlds with four different
//! genesis configurations: validator system transactions `next_round(round, timestamp, history)`
//! generated around the current round / timestamp, interleaved with `get_current_time` and
//! `compare_current_time` calls from ordinary manifests. The model is the tuple (epoch, round,
//! milli timestamp, minute timestamp) read raw from the consensus manager's field substates after
//! every transaction.

use scrypto_test::prelude::*;
use vf_core::{Check, Gen, Outcome, Part};
use vf_world::*;

const MS_PER_MIN: i64 = 60_000;
/// Largest timestamp whose minute still fits the i32 minute clock.
const MAX_MS: i64 = (i32::MAX as i64) * MS_PER_MIN + (MS_PER_MIN - 1);

#[derive(Clone, Copy, Debug, PartialEq, Eq)]
struct Clock {
    epoch: u64,
    round: u64,
    ms: i64,
    minute: i32,
}

fn read_clock(db: &InMemorySubstateDatabase) -> Option<Clock> {
    let node = CONSENSUS_MANAGER.as_node_id();
    let state = db
        .get_substate::<ConsensusManagerStateFieldSubstate>(node, MAIN_BASE_PARTITION, ConsensusManagerField::State)?
        .into_payload()
        .fully_update_and_into_latest_version();
    let ms = db
        .get_substate::<ConsensusManagerProposerMilliTimestampFieldSubstate>(node, MAIN_BASE_PARTITION, ConsensusManagerField::ProposerMilliTimestamp)?
        .into_payload()
        .fully_update_and_into_latest_version();
    let minute = db
        .get_substate::<ConsensusManagerProposerMinuteTimestampFieldSubstate>(node, MAIN_BASE_PARTITION, ConsensusManagerField::ProposerMinuteTimestamp)?
        .into_payload()
        .fully_update_and_into_latest_version();
    Some(Clock { epoch: state.epoch.number(), round: state.round.number(), ms: ms.epoch_milli, minute: minute.epoch_minute })
}

// ---- genesis configurations --------------------------------------------------------------------

struct Cfg {
    key: &'static str,
    genesis: fn() -> Option<BabylonSettings>,
    validators: u8,
    label: &'static str,
}

fn settings(validators: u64, genesis_epoch: u64, cond: EpochChangeCondition, initial_time_ms: i64) -> Option<BabylonSettings> {
    let keys: Vec<(Secp256k1PublicKey, Decimal)> =
        (1..=validators).map(|i| (Secp256k1PrivateKey::from_u64(i).unwrap().public_key(), Decimal::from(i))).collect();
    let staker = ComponentAddress::preallocated_account_from_public_key(&keys[0].0);
    let mut s = BabylonSettings::validators_and_single_staker(
        keys,
        staker,
        Decimal::ZERO,
        Epoch::of(genesis_epoch),
        ConsensusManagerConfig::test_default().with_epoch_change_condition(cond),
    );
    s.initial_time_ms = initial_time_ms;
    Some(s)
}

/// every accepted round ends the epoch (the configuration most repository tests run under)
fn genesis_every_round() -> Option<BabylonSettings> {
    settings(1, 1, EpochChangeCondition { min_round_count: 1, max_round_count: 1, target_duration_millis: 0 }, 3_600_000)
}
/// purely round-based: the epoch ends when round 4 is reached
fn genesis_rounds() -> Option<BabylonSettings> {
    settings(3, 10, EpochChangeCondition { min_round_count: 4, max_round_count: 4, target_duration_millis: 0 }, 1_700_000_000_000)
}
/// time-based: 90 s epochs (at least 2 rounds), starting one second before a minute boundary
fn genesis_time() -> Option<BabylonSettings> {
    settings(
        2,
        2,
        EpochChangeCondition { min_round_count: 2, max_round_count: 1_000_000, target_duration_millis: 90_000 },
        28_333_333 * MS_PER_MIN + 59_000,
    )
}
/// mixed (3..6 rounds, 60 s), three minutes before the end of the i32 minute clock
fn genesis_near_limit() -> Option<BabylonSettings> {
    settings(
        2,
        100,
        EpochChangeCondition { min_round_count: 3, max_round_count: 6, target_duration_millis: 60_000 },
        (i32::MAX as i64) * MS_PER_MIN - 3 * MS_PER_MIN,
    )
}

static CFGS: [Cfg; 4] = [
    Cfg { key: "c44-every-round", genesis: genesis_every_round, validators: 1, label: "genesis: epoch change on every round" },
    Cfg { key: "c44-rounds", genesis: genesis_rounds, validators: 3, label: "genesis: round-based epoch change (4 rounds)" },
    Cfg { key: "c44-time", genesis: genesis_time, validators: 2, label: "genesis: time-based epoch change (90 s)" },
    Cfg { key: "c44-limit", genesis: genesis_near_limit, validators: 2, label: "genesis: mixed condition, 3 minutes before the end of the minute clock" },
];

// ---- generators --------------------------------------------------------------------------------

fn gen_timestamp(g: &mut Gen, c: &Clock) -> (i64, &'static str) {
    let next_boundary = (c.ms / MS_PER_MIN + 1).saturating_mul(MS_PER_MIN);
    match g.weighted(&[4, 3, 3, 4, 2, 1, 3, 2, 1]) {
        0 => (c.ms.saturating_add(1 + g.below(5000) as i64), "timestamp: a little ahead"),
        1 => (c.ms, "timestamp: equal to the current one"),
        2 => (c.ms.saturating_add(1), "timestamp: +1 ms"),
        3 => (next_boundary.saturating_add(g.range(-1, 1) as i64), "timestamp: at the next minute boundary -1/0/+1"),
        4 => (c.ms.saturating_add(g.range_u64(60_000, 100 * 3_600_000) as i64), "timestamp: minutes to hours ahead"),
        5 => match g.below(5) {
            0 => (MAX_MS, "timestamp: last value the minute clock can represent"),
            1 => (MAX_MS.saturating_add(1), "timestamp: first value beyond the minute clock"),
            2 => (i64::MAX, "timestamp: i64::MAX"),
            3 => (c.ms.saturating_add(g.range_u64(1, 1 << 50) as i64), "timestamp: far ahead"),
            _ => (c.ms.saturating_add(10 * 365 * 86_400_000), "timestamp: far ahead"),
        },
        6 => (c.ms - 1, "timestamp: -1 ms"),
        7 => (c.ms - 1 - g.below(120_000) as i64, "timestamp: up to two minutes back"),
        _ => match g.below(5) {
            0 => (0, "timestamp: far back"),
            1 => (-1, "timestamp: negative"),
            2 => (i64::MIN, "timestamp: i64::MIN"),
            3 => (c.ms / 2, "timestamp: far back"),
            _ => ((c.ms / MS_PER_MIN) * MS_PER_MIN - 1, "timestamp: end of the previous minute"),
        },
    }
}

fn gen_round(g: &mut Gen, c: &Clock) -> (u64, &'static str) {
    match g.weighted(&[8, 4, 2, 2, 1]) {
        0 => (c.round.saturating_add(1), "round: +1"),
        1 => (c.round.saturating_add(2 + g.below(6)), "round: gap of 1-6 missed rounds"),
        2 => (c.round, "round: equal to the current one"),
        3 => (if c.round == 0 { 0 } else { g.below(c.round) }, "round: lower than the current one"),
        _ => (*g.pick(&[u64::MAX, 1 << 32, u32::MAX as u64]), "round: far ahead"),
    }
}

struct NextRound {
    round: u64,
    ts: i64,
    gaps: Vec<u8>,
    leader: u8,
    fallback: bool,
}

fn op_of(i: u64) -> TimeComparisonOperator {
    match i {
        0 => TimeComparisonOperator::Eq,
        1 => TimeComparisonOperator::Lt,
        2 => TimeComparisonOperator::Lte,
        3 => TimeComparisonOperator::Gt,
        _ => TimeComparisonOperator::Gte,
    }
}

fn apply_op(op: TimeComparisonOperator, a: i128, b: i128) -> bool {
    match op {
        TimeComparisonOperator::Eq => a == b,
        TimeComparisonOperator::Lt => a < b,
        TimeComparisonOperator::Lte => a <= b,
        TimeComparisonOperator::Gt => a > b,
        TimeComparisonOperator::Gte => a >= b,
    }
}

fn gen_instant(g: &mut Gen, c: &Clock) -> i64 {
    let s = c.ms / 1000;
    let min_start = (c.minute as i64) * 60;
    match g.weighted(&[3, 3, 3, 3, 2, 2]) {
        0 => s,
        1 => s.saturating_add(g.range(-2, 2) as i64),
        2 => min_start.saturating_add(*g.pick(&[-60i64, -1, 0, 1, 59, 60, 61, 119, 120])),
        3 => s.saturating_add(g.range(-4000, 4000) as i64),
        4 => *g.pick(&[0i64, -1, 1, i64::MAX, i64::MIN, i64::MAX / 1000, i64::MAX / 1000 + 1, i64::MIN / 1000, i64::MIN / 1000 - 1]),
        _ => *g.pick(&[
            (i32::MAX as i64) * 60,
            (i32::MAX as i64) * 60 - 1,
            (i32::MAX as i64) * 60 + 60,
            (i32::MIN as i64) * 60,
            (i32::MIN as i64) * 60 - 60,
            1 << 40,
        ]),
    }
}

// ---- the case ----------------------------------------------------------------------------------

fn run_case(g: &mut Gen, w: &mut World, cfg: &Cfg) -> Outcome {
    let mut log: Vec<String> = Vec::new();
    let Some(mut cur) = read_clock(w.db()) else {
        return Outcome::fail("harness: consensus manager substates unreadable", String::new());
    };
    let start = cur;
    if cur.ms < 0 || cur.minute as i64 != cur.ms / MS_PER_MIN {
        return Outcome::fail(
            "clock created at genesis: negative, or minute timestamp is not the milli timestamp rounded down to minutes",
            format!("config {}: {:?}", cfg.key, cur),
        );
    }
    let nv = cfg.validators;
    let steps = 1 + g.len(59);
    let mut rejected_backwards = 0u64;
    let mut epoch_changes = 0u64;
    let mut accepted = 0u64;
    let mut undecided = 0u64;
    macro_rules! bail {
        ($sig:expr, $($fmt:tt)+) => {
            return Outcome::fail($sig, format!("{} | config {} start {:?} | history: {}", format!($($fmt)+), cfg.key, start, log.join(" ; ")))
        };
    }
    for _ in 0..steps {
        match g.weighted(&[6, 2, 3]) {
            0 => {
                // ---- next_round ---------------------------------------------------------------
                let (ts, tl) = gen_timestamp(g, &cur);
                let (round, rl) = gen_round(g, &cur);
                g.label(tl);
                g.label(rl);
                let progress: i128 = round as i128 - cur.round as i128;
                let right_len: Option<usize> = if (1..=40).contains(&progress) { Some((progress - 1) as usize) } else { None };
                let gap_len = match (right_len, g.weighted(&[10, 1, 1, 1])) {
                    (Some(n), 0) => n,
                    (Some(n), 1) => n + 1,
                    (Some(n), 2) => n.saturating_sub(1),
                    (Some(_), _) => g.index(4),
                    (None, _) => g.index(3),
                };
                let leader_of = |g: &mut Gen| -> u8 {
                    if g.chance(1, 40) {
                        *g.pick(&[nv, u8::MAX])
                    } else {
                        g.below(nv as u64) as u8
                    }
                };
                let gaps: Vec<u8> = (0..gap_len).map(|_| leader_of(g)).collect();
                let nr = NextRound { round, ts, gaps, leader: leader_of(g), fallback: g.chance(1, 4) };

                let ts_ok = nr.ts >= cur.ms && nr.ts <= MAX_MS;
                let round_ok = nr.round > cur.round;
                let hist_ok = Some(nr.gaps.len()) == right_len && nr.gaps.iter().all(|i| *i < nv) && nr.leader < nv;
                if right_len.is_some() && Some(nr.gaps.len()) != right_len {
                    g.label("leader history: wrong number of gap rounds");
                }
                if nr.gaps.iter().any(|i| *i >= nv) || nr.leader >= nv {
                    g.label("leader history: validator index out of range");
                }
                log.push(format!(
                    "next_round(round {}, ts {}{}, gaps {:?}, leader {}{})",
                    nr.round,
                    nr.ts,
                    if nr.ts >= cur.ms { format!(" = cur+{}", nr.ts as i128 - cur.ms as i128) } else { format!(" = cur-{}", cur.ms as i128 - nr.ts as i128) },
                    nr.gaps,
                    nr.leader,
                    if nr.fallback { " fallback" } else { "" }
                ));
                let manifest = ManifestBuilder::new_system_v1()
                    .call_method(
                        CONSENSUS_MANAGER,
                        CONSENSUS_MANAGER_NEXT_ROUND_IDENT,
                        ConsensusManagerNextRoundInput {
                            round: Round::of(nr.round),
                            proposer_timestamp_ms: nr.ts,
                            leader_proposal_history: LeaderProposalHistory {
                                gap_round_leaders: nr.gaps.clone(),
                                current_leader: nr.leader,
                                is_fallback: nr.fallback,
                            },
                        },
                    )
                    .build();
                let run = w.run_system(manifest, vec![system_execution(SystemExecution::Validator)]);
                if let Some(p) = &run.panic {
                    bail!("host panic while executing next_round", "{}", p);
                }
                if !run.is_commit() {
                    bail!("harness: next_round transaction was not committed", "{}", run.outcome_string());
                }
                let Some(after) = read_clock(w.db()) else {
                    bail!("consensus manager substates unreadable after next_round", "{}", run.outcome_string());
                };
                log.last_mut().unwrap().push_str(&format!(" -> {} {:?}", if run.is_success() { "ok" } else { "failed" }, after));
                if run.is_success() {
                    if !ts_ok && nr.ts < cur.ms {
                        bail!("next_round with a timestamp lower than the recorded one succeeds", "before {:?} after {:?}", cur, after);
                    }
                    if !round_ok {
                        bail!("next_round with a round that is not higher than the current one succeeds", "before {:?} after {:?}", cur, after);
                    }
                    if after.ms < cur.ms {
                        bail!("proposer milli timestamp decreased", "before {:?} after {:?}", cur, after);
                    }
                    if after.minute < cur.minute {
                        bail!("proposer minute timestamp decreased", "before {:?} after {:?}", cur, after);
                    }
                    if after.minute as i64 != after.ms / MS_PER_MIN {
                        bail!("minute timestamp is not the milli timestamp rounded down to minutes", "before {:?} after {:?}", cur, after);
                    }
                    if after.ms != nr.ts {
                        bail!("recorded milli timestamp is not the proposer timestamp of the accepted round", "submitted {} before {:?} after {:?}", nr.ts, cur, after);
                    }
                    if after.epoch == cur.epoch {
                        if after.round <= cur.round {
                            bail!("round did not advance within the epoch", "before {:?} after {:?}", cur, after);
                        }
                        if after.round != nr.round {
                            bail!("recorded round is not the accepted round", "submitted {} before {:?} after {:?}", nr.round, cur, after);
                        }
                    } else {
                        if after.epoch != cur.epoch.wrapping_add(1) {
                            bail!("epoch change did not advance the epoch by exactly one", "before {:?} after {:?}", cur, after);
                        }
                        if after.round != 0 {
                            bail!("epoch change did not reset the round", "before {:?} after {:?}", cur, after);
                        }
                        epoch_changes += 1;
                    }
                    if !ts_ok {
                        // ts > MAX_MS accepted: the minute clock cannot represent it; caught above by the minute rule
                        bail!("next_round with a timestamp beyond the minute clock succeeds", "before {:?} after {:?}", cur, after);
                    }
                    if !hist_ok {
                        undecided += 1;
                    }
                    accepted += 1;
                    if nr.ts == cur.ms {
                        g.label("accepted: timestamp equal to the recorded one");
                    }
                    if nr.ts == MAX_MS {
                        g.label("accepted: last timestamp the minute clock can represent");
                    }
                    if after.minute > cur.minute && after.epoch != cur.epoch {
                        g.label("accepted: minute boundary and epoch change in one round");
                    }
                    cur = after;
                } else {
                    if after != cur {
                        bail!("failed next_round changed the consensus clock", "before {:?} after {:?}; {}", cur, after, run.outcome_string());
                    }
                    if ts_ok && round_ok && hist_ok {
                        bail!(
                            "next_round with a non-decreasing timestamp, a higher round and a consistent leader history fails",
                            "clock {:?}; {}",
                            cur,
                            run.outcome_string()
                        );
                    }
                    if nr.ts < cur.ms || !round_ok {
                        rejected_backwards += 1;
                        g.label(if nr.ts < cur.ms { "rejected: timestamp moving back" } else { "rejected: round not advancing" });
                    }
                }
            }
            1 => {
                // ---- get_current_time ---------------------------------------------------------
                let second = g.bool();
                let precision = if second { TimePrecisionV2::Second } else { TimePrecisionV2::Minute };
                log.push(format!("get_current_time({:?})", precision));
                let manifest = ManifestBuilder::new()
                    .lock_fee_from_faucet()
                    .call_method(CONSENSUS_MANAGER, CONSENSUS_MANAGER_GET_CURRENT_TIME_IDENT, ConsensusManagerGetCurrentTimeInputV2 { precision })
                    .build();
                let run = w.run(manifest, vec![]);
                if let Some(p) = &run.panic {
                    bail!("host panic while executing get_current_time", "{}", p);
                }
                let out: Option<Instant> = match run.commit().map(|c| &c.outcome) {
                    Some(TransactionOutcome::Success(o)) => match o.get(1) {
                        Some(InstructionOutput::CallReturn(b)) => scrypto_decode(b).ok(),
                        _ => None,
                    },
                    _ => None,
                };
                let expected = if second { cur.ms.div_euclid(1000) } else { cur.minute as i64 * 60 };
                if out.map(|i| i.seconds_since_unix_epoch) != Some(expected) {
                    bail!(
                        "get_current_time disagrees with the recorded clock",
                        "precision {:?}: expected {} s, got {:?} ({}); clock {:?}",
                        precision,
                        expected,
                        out,
                        run.outcome_string(),
                        cur
                    );
                }
                g.label(if second { "query: get_current_time(Second)" } else { "query: get_current_time(Minute)" });
                if read_clock(w.db()) != Some(cur) {
                    bail!("a time query changed the consensus clock", "before {:?} after {:?}", cur, read_clock(w.db()));
                }
            }
            _ => {
                // ---- compare_current_time -----------------------------------------------------
                let second = g.bool();
                let precision = if second { TimePrecisionV2::Second } else { TimePrecisionV2::Minute };
                let op = op_of(g.below(5));
                let t = gen_instant(g, &cur);
                log.push(format!("compare_current_time({}, {:?}, {:?})", t, precision, op));
                let manifest = ManifestBuilder::new()
                    .lock_fee_from_faucet()
                    .call_method(
                        CONSENSUS_MANAGER,
                        CONSENSUS_MANAGER_COMPARE_CURRENT_TIME_IDENT,
                        ConsensusManagerCompareCurrentTimeInputV2 { instant: Instant::new(t), precision, operator: op },
                    )
                    .build();
                let run = w.run(manifest, vec![]);
                if let Some(p) = &run.panic {
                    bail!("host panic while executing compare_current_time", "{}", p);
                }
                let out: Option<bool> = match run.commit().map(|c| &c.outcome) {
                    Some(TransactionOutcome::Success(o)) => match o.get(1) {
                        Some(InstructionOutput::CallReturn(b)) => scrypto_decode(b).ok(),
                        _ => None,
                    },
                    _ => None,
                };
                // both sides at the requested precision (the clock is >= 1 hour after 1970 in every world,
                // so rounding a negative instant towards zero or down gives the same verdicts)
                let expected = if second {
                    apply_op(op, cur.ms.div_euclid(1000) as i128, t as i128)
                } else {
                    let other_minute = (t as i128).div_euclid(60).clamp(i32::MIN as i128, i32::MAX as i128);
                    apply_op(op, cur.minute as i128, other_minute)
                };
                if out != Some(expected) {
                    bail!(
                        "compare_current_time disagrees with the recorded clock",
                        "{:?} precision, now {:?} {} s: expected {}, got {:?} ({}); clock {:?}",
                        precision,
                        op,
                        t,
                        expected,
                        out,
                        run.outcome_string(),
                        cur
                    );
                }
                g.label(if second { "query: compare_current_time(Second)" } else { "query: compare_current_time(Minute)" });
                if read_clock(w.db()) != Some(cur) {
                    bail!("a time query changed the consensus clock", "before {:?} after {:?}", cur, read_clock(w.db()));
                }
            }
        }
    }
    if epoch_changes > 0 {
        g.label("history with an epoch change");
    }
    if rejected_backwards > 0 && epoch_changes > 0 {
        g.nontrivial();
    }
    if cur.ms / MS_PER_MIN > start.ms / MS_PER_MIN {
        g.label("history crossing a minute boundary");
    }
    g.count("next_round accepted", accepted);
    g.count("next_round rejected for moving back", rejected_backwards);
    g.count("epoch changes", epoch_changes);
    g.count("next_round accepted although the leader history is inconsistent (not judged)", undecided);
    g.sample(|| format!("config {} start {:?}: {}", cfg.key, start, log.join(" ; ")));
    Outcome::Pass
}

fn case(g: &mut Gen) -> Outcome {
    let cfg = &CFGS[g.index(CFGS.len())];
    g.label(cfg.label);
    with_world(cfg.key, cfg.genesis, no_build, |w| run_case(g, w, cfg))
}

/// Minimal histories found while proving the check sensitive: a round with the timestamp equal to
/// the recorded one; a round that ends the epoch; a round 1 ms later (minute rounding); one case on
/// each of the other three worlds (their genesis clocks are checked at the start of every case).
fn fixed_tapes() -> Vec<Vec<u8>> {
    ["000000002d000000000000000000000000", "00000000000000000000", "000000004e000000000000000000", "40", "80", "c0"]
        .iter()
        .map(|h| hex::decode(h).unwrap())
        .collect()
}

pub fn check() -> Check {
    Check::new(
        "C44",
        "Consensus time and rounds only move forward",
        "histories of 1-60 transactions on one of four worlds (genesis: epoch change on every round / after 4 rounds / after 90 s and >= 2 rounds / 3..6 rounds and 60 s starting 3 minutes before the end of the i32 minute clock; 1-3 validators; start times >= 1 h after 1970): 55 % validator system transactions next_round(round, timestamp, leader history) with the timestamp equal / +1 ms / a little ahead / at the next minute boundary -1,0,+1 / minutes to hours ahead / far ahead, beyond the minute clock, i64::MAX / -1 ms / up to two minutes back / far back, negative, i64::MIN, the round +1 / a gap of 1-6 / equal / lower / far ahead, and a leader history with the right number of gap rounds (or one more, one less, arbitrary; 1 in 40 validator indexes out of range); 18 % get_current_time and 27 % compare_current_time (all five operators, minute and second precision, instants around the current second and minute, at both i32-minute limits, i64 extremes and the seconds->millis overflow limits) from ordinary manifests. Non-trivial = the history contains at least one rejected backwards move (timestamp or round) and at least one epoch change. Distinct = distinct decoded choice sequences.",
    )
    .assume("accepted exactly when: timestamp >= recorded timestamp and representable by the i32 minute clock, round > current round, and the leader history is consistent (gap count = progress - 1, validator indexes in range); transactions whose only flaw is the leader history may go either way (the property does not speak about them) but their consequences are checked")
    .assume("latest protocol version only (second precision available); genesis times >= 1 h after 1970 so that minute rounding of negative instants cannot matter")
    .part(Part::new("histories", 5_000, 250_000, 900, case).fixed(fixed_tapes()))
    .min_nontrivial_pct(10.0)
}
