//! C49: execution limits are enforced exactly.
//!
//! Every case takes one limit, one configuration (`LimitParameters` override through
//! `SystemOverrides`, small generated value or the protocol default), and a puppet transaction whose
//! consumption of that limit is one scalar `n`. Part `threshold` covers the limits whose consumption
//! the harness can state exactly (call depth, key / value / payload / event / log / panic sizes, event
//! and log counts): the runs at `threshold-1`, `threshold`, `threshold+1` must succeed / succeed /
//! fail with exactly that `TransactionLimitsError`, and moving the limit by D moves the threshold by D.
//! Part `bytes` covers the heap and track byte totals: the largest accepted `n` is found by bisection,
//! then shift-by-D, monotonicity and (heap) create/drop churn are asserted.

use crate::util::*;
use radix_engine::system::system_modules::limits::TransactionLimitsError;
use radix_engine::transaction::LimitParameters;
use scrypto_test::prelude::*;
use vf_core::{ensure, Check, Gen, Outcome, Part};
use vf_world::*;

struct Ext {
    g: ComponentAddress,
    /// smallest max_track_substate_total_bytes under which the track manifest with the smallest payload succeeds
    track_floor: usize,
    /// same for the heap manifest
    heap_floor: usize,
}

#[derive(Clone, Copy, Debug, PartialEq, Eq)]
enum Kind {
    Depth,
    KeyMap,
    KeyIndex,
    KeySorted,
    ValueKv,
    ValueField,
    PayloadFn,
    PayloadMethod,
    Events,
    Logs,
    EventSize,
    LogSize,
    PanicSize,
}

impl Kind {
    fn name(&self) -> &'static str {
        match self {
            Kind::Depth => "call depth",
            Kind::KeyMap => "key size (KV collection)",
            Kind::KeyIndex => "key size (index collection)",
            Kind::KeySorted => "key size (sorted index, +2)",
            Kind::ValueKv => "value size (KV entry)",
            Kind::ValueField => "value size (field)",
            Kind::PayloadFn => "invoke payload size (function)",
            Kind::PayloadMethod => "invoke payload size (method)",
            Kind::Events => "event count",
            Kind::Logs => "log count",
            Kind::EventSize => "event size",
            Kind::LogSize => "log size",
            Kind::PanicSize => "panic message size",
        }
    }
}

#[derive(Clone, Copy, Debug)]
struct Shape {
    kind: Kind,
    /// call depth: frames the bottom script nests below the last `recurse` frame
    extra: usize,
    /// events / logs / sizes: emitted from a method of a global component instead of a function
    via_method: bool,
}

fn limits_with(kind: Kind, l: usize) -> LimitParameters {
    let mut p = LimitParameters::babylon_genesis();
    match kind {
        Kind::Depth => p.max_call_depth = l,
        Kind::KeyMap | Kind::KeyIndex | Kind::KeySorted => p.max_substate_key_size = l,
        Kind::ValueKv | Kind::ValueField => p.max_substate_value_size = l,
        Kind::PayloadFn | Kind::PayloadMethod => p.max_invoke_input_size = l,
        Kind::Events => p.max_number_of_events = l,
        Kind::Logs => p.max_number_of_logs = l,
        Kind::EventSize => p.max_event_size = l,
        Kind::LogSize => p.max_log_size = l,
        Kind::PanicSize => p.max_panic_message_size = l,
    }
    p
}

fn default_limit(kind: Kind) -> Option<usize> {
    let p = LimitParameters::babylon_genesis();
    match kind {
        Kind::Depth => Some(p.max_call_depth),
        Kind::KeyMap | Kind::KeyIndex | Kind::KeySorted => Some(p.max_substate_key_size),
        // reaching 2 MiB / 1 MiB needs a carrier invocation above the 1 MiB payload limit
        Kind::ValueKv | Kind::ValueField | Kind::PayloadFn | Kind::PayloadMethod => None,
        Kind::Events => Some(p.max_number_of_events),
        Kind::Logs => Some(p.max_number_of_logs),
        Kind::EventSize => Some(p.max_event_size),
        Kind::LogSize => Some(p.max_log_size),
        Kind::PanicSize => Some(p.max_panic_message_size),
    }
}

fn small() -> Vec<u8> {
    scrypto_encode(&7u8).unwrap()
}

fn event_data_sized(n: usize) -> Option<Vec<u8>> {
    // E0(Vec<u8>): prefix + tuple kind + field count + array kind + element kind + leb(m) + m
    for l in 1..=4usize {
        if n < 5 + l {
            continue;
        }
        let m = n - 5 - l;
        if leb(m) == l {
            let d = puppet_event_data(vec![0x5a; m]);
            if d.len() == n {
                return Some(d);
            }
        }
    }
    None
}

/// A script whose encoded argument tuple `(script,)` is exactly `target` bytes; never executes anything.
fn sized_script(target: usize) -> Option<Script> {
    for fillers in 0..4usize {
        let make = |m: usize| {
            let mut inner = vec![Op::Log { level: 0, message: "x".repeat(m) }];
            for _ in 0..fillers {
                inner.push(Op::GenerateRuid);
            }
            Script(vec![Op::Repeat { times: 0, ops: inner }])
        };
        let base = args_of(&make(0)).len();
        if target < base {
            continue;
        }
        for l in 1..=4usize {
            let Some(m) = (target - base).checked_sub(l - 1) else { continue };
            if leb(m) == l {
                let s = make(m);
                if args_of(&s).len() == target {
                    return Some(s);
                }
            }
        }
    }
    None
}

/// The transaction consuming `n` of the limit, or None when `n` is not expressible.
fn manifest(w: &World, sh: &Shape, n: usize) -> Option<TransactionManifestV1> {
    let g = w.ext::<Ext>().g;
    let script_tx = |s: Script| -> TransactionManifestV1 {
        if sh.via_method {
            puppet_method_manifest(g, PUPPET_ACT, &s)
        } else {
            w.puppet_manifest(w.puppet_p, &s)
        }
    };
    Some(match sh.kind {
        Kind::Depth => {
            let bottom = match sh.extra {
                0 => Script(vec![]),
                1 => Script(vec![Op::CallFunction {
                    package: w.puppet_q,
                    blueprint: PUPPET_BLUEPRINT.into(),
                    function: PUPPET_RUN.into(),
                    args: args_of(&Script(vec![])),
                }]),
                2 if sh.via_method => Script(vec![import_refs(&[*g.as_node_id(), *w.puppet_q.as_node_id()]), Op::CallMethod {
                    receiver: N::Lit(*g.as_node_id()),
                    method: PUPPET_PEEK.into(),
                    args: args_of(&Script(vec![Op::CallFunction {
                        package: w.puppet_q,
                        blueprint: PUPPET_BLUEPRINT.into(),
                        function: PUPPET_RUN.into(),
                        args: args_of(&Script(vec![])),
                    }])),
                }]),
                m => Script(vec![Op::CallFunction {
                    package: w.puppet_q,
                    blueprint: PUPPET_BLUEPRINT.into(),
                    function: PUPPET_RECURSE.into(),
                    args: scrypto_encode(&((m - 1) as u32, Script(vec![]))).unwrap(),
                }]),
            };
            ManifestBuilder::new()
                .lock_fee_from_faucet()
                .call_function(w.puppet_p, PUPPET_BLUEPRINT, PUPPET_RECURSE, (n as u32, bottom.clone_as_manifest_value()))
                .build()
        }
        Kind::KeyMap => puppet_method_manifest(
            g,
            PUPPET_ACT,
            &Script(vec![
                Op::ActorOpenKv { state: 0, collection: PUPPET_COLL_KV, key: sized_payload(n)?, flags: 1 },
                Op::KvSet(0, small()),
                Op::KvClose(0),
            ]),
        ),
        Kind::KeyIndex => puppet_method_manifest(
            g,
            PUPPET_ACT,
            &Script(vec![Op::ActorIndexInsert { state: 0, collection: PUPPET_COLL_INDEX, key: sized_payload(n)?, value: small() }]),
        ),
        Kind::KeySorted => puppet_method_manifest(
            g,
            PUPPET_ACT,
            &Script(vec![Op::ActorSortedInsert { state: 0, collection: PUPPET_COLL_SORTED, sort: 7, key: sized_payload(n)?, value: small() }]),
        ),
        Kind::ValueKv => puppet_method_manifest(
            g,
            PUPPET_ACT,
            &Script(vec![
                Op::ActorOpenKv { state: 0, collection: PUPPET_COLL_KV, key: small(), flags: 1 },
                Op::KvSet(0, sized_payload(n)?),
                Op::KvClose(0),
            ]),
        ),
        Kind::ValueField => puppet_method_manifest(
            g,
            PUPPET_ACT,
            &Script(vec![Op::ActorOpenField { state: 0, field: 1, flags: 1 }, Op::FieldWrite(0, sized_payload(n)?), Op::FieldClose(0)]),
        ),
        Kind::PayloadFn => w.puppet_manifest(w.puppet_p, &sized_script(n)?),
        Kind::PayloadMethod => puppet_method_manifest(g, PUPPET_PEEK, &sized_script(n)?),
        Kind::Events => script_tx(Script(vec![Op::Repeat {
            times: n as u32,
            ops: vec![Op::ActorEmitEvent { name: "E0".into(), data: puppet_event_data(vec![1, 2, 3]), force_write: false }],
        }])),
        Kind::Logs => script_tx(Script(vec![Op::Repeat { times: n as u32, ops: vec![Op::Log { level: 2, message: "own".into() }] }])),
        Kind::EventSize => script_tx(Script(vec![Op::ActorEmitEvent { name: "E1".into(), data: event_data_sized(n)?, force_write: false }])),
        Kind::LogSize => script_tx(Script(vec![Op::Log { level: 1, message: "y".repeat(n) }])),
        Kind::PanicSize => script_tx(Script(vec![Op::Panic("z".repeat(n))])),
    })
}

#[derive(Debug, Clone, PartialEq)]
enum Res {
    Ok,
    Limit(TransactionLimitsError),
    Other(String),
}

fn classify(kind: Kind, run: &Run) -> Res {
    if run.panic.is_some() || run.receipt.is_none() {
        return Res::Other(run.outcome_string());
    }
    if run.is_success() {
        return Res::Ok;
    }
    match run.failure() {
        Some(RuntimeError::SystemModuleError(SystemModuleError::TransactionLimitsError(e))) => Res::Limit(e.clone()),
        Some(RuntimeError::ApplicationError(ApplicationError::PanicMessage(_))) if kind == Kind::PanicSize => Res::Ok,
        _ => Res::Other(run.outcome_string()),
    }
}

/// Is `e` the error of this limit, reporting consumption `q` against limit `l`?
fn is_expected_error(kind: Kind, e: &TransactionLimitsError, q: usize, l: usize) -> bool {
    match (kind, e) {
        (Kind::Depth, TransactionLimitsError::MaxCallDepthLimitReached) => true,
        (Kind::KeyMap | Kind::KeyIndex | Kind::KeySorted, TransactionLimitsError::MaxSubstateKeySizeExceeded(x)) => *x == q,
        (Kind::ValueKv | Kind::ValueField, TransactionLimitsError::MaxSubstateSizeExceeded(x)) => *x == q,
        (Kind::PayloadFn | Kind::PayloadMethod, TransactionLimitsError::MaxInvokePayloadSizeExceeded(x)) => *x == q,
        (Kind::Events, TransactionLimitsError::TooManyEvents) => true,
        (Kind::Logs, TransactionLimitsError::TooManyLogs) => true,
        (Kind::EventSize, TransactionLimitsError::EventSizeTooLarge { actual, max }) => *actual == q && *max == l,
        (Kind::LogSize, TransactionLimitsError::LogSizeTooLarge { actual, max }) => *actual == q && *max == l,
        (Kind::PanicSize, TransactionLimitsError::PanicMessageSizeTooLarge { actual, max }) => *actual == q && *max == l,
        _ => false,
    }
}

fn exec(w: &mut World, m: TransactionManifestV1, p: &LimitParameters) -> Run {
    w.reset();
    let p = p.clone();
    w.run_with_config(m, vec![], config_with(|o| o.limit_parameters = Some(p)))
}

fn key_len(k: &SubstateKey) -> usize {
    match k {
        SubstateKey::Map(m) => m.len(),
        SubstateKey::Sorted((_, m)) => m.len() + 2,
        SubstateKey::Field(_) => 1,
    }
}

/// Post-condition on a committed successful transaction: nothing it wrote or emitted exceeds the limits.
fn post_condition(run: &Run, p: &LimitParameters) -> Result<(), String> {
    let Some(c) = run.commit() else { return Ok(()) };
    if !run.is_success() {
        return Ok(());
    }
    for (node, nu) in &c.state_updates.by_node {
        let NodeStateUpdates::Delta { by_partition } = nu;
        for (part, pu) in by_partition {
            if let PartitionStateUpdates::Delta { by_substate } = pu {
                for (k, u) in by_substate {
                    if key_len(k) > p.max_substate_key_size {
                        return Err(format!("committed substate key of {} bytes > max_substate_key_size {} ({:?} partition {:?})", key_len(k), p.max_substate_key_size, node, part));
                    }
                    if let DatabaseUpdate::Set(v) = u {
                        if v.len() > p.max_substate_value_size {
                            return Err(format!("committed substate value of {} bytes > max_substate_value_size {} ({:?} partition {:?} key {:?})", v.len(), p.max_substate_value_size, node, part, k));
                        }
                    }
                }
            }
        }
    }
    if c.application_logs.len() > p.max_number_of_logs {
        return Err(format!("{} logs > max_number_of_logs {}", c.application_logs.len(), p.max_number_of_logs));
    }
    for (_, l) in &c.application_logs {
        if l.len() > p.max_log_size {
            return Err(format!("log of {} bytes > max_log_size {}", l.len(), p.max_log_size));
        }
    }
    for (_, e) in &c.application_events {
        if e.len() > p.max_event_size {
            return Err(format!("event of {} bytes > max_event_size {}", e.len(), p.max_event_size));
        }
    }
    Ok(())
}

fn is_puppet_event(w: &World, id: &EventTypeIdentifier) -> bool {
    let g = w.ext::<Ext>().g;
    match &id.0 {
        Emitter::Function(b) => b.package_address == w.puppet_p || b.package_address == w.puppet_q,
        Emitter::Method(n, _) => *n == *g.as_node_id(),
    }
}

/// The fixed part `b` of the consumption: consumption(n) = b + n. Measured from an unconstrained run where
/// the harness cannot state it structurally.
fn overhead(w: &mut World, sh: &Shape) -> Result<usize, String> {
    let defaults = LimitParameters::babylon_genesis();
    Ok(match sh.kind {
        // frames below the transaction processor: the n+1 recurse frames and what the bottom script nests
        Kind::Depth => 1 + sh.extra,
        Kind::KeyMap | Kind::KeyIndex => 0,
        // two bytes of sort prefix belong to a sorted key
        Kind::KeySorted => 2,
        Kind::ValueKv | Kind::ValueField => {
            let n0 = 64;
            let m = manifest(w, sh, n0).ok_or("no calibration payload")?;
            let run = exec(w, m, &defaults);
            if !run.is_success() {
                return Err(format!("calibration run failed: {}", run.outcome_string()));
            }
            // the substate as stored: the largest value this transaction stored under the component
            let g = *w.ext::<Ext>().g.as_node_id();
            let mut best = 0usize;
            let c = run.commit().unwrap();
            if let Some(NodeStateUpdates::Delta { by_partition }) = c.state_updates.by_node.get(&g) {
                for (part, pu) in by_partition {
                    if let PartitionStateUpdates::Delta { by_substate } = pu {
                        for (k, _) in by_substate {
                            if let Some(raw) = w.db().get_raw_substate(&g, *part, k) {
                                best = best.max(raw.len());
                            }
                        }
                    }
                }
            }
            if best < n0 {
                return Err(format!("calibration: stored substate of {} bytes for a {} byte payload", best, n0));
            }
            best - n0
        }
        // size of an invocation = bytes naming the callee (package address + blueprint + function, or node id +
        // method) + argument bytes
        Kind::PayloadFn => NodeId::LENGTH + PUPPET_BLUEPRINT.len() + PUPPET_RUN.len(),
        Kind::PayloadMethod => NodeId::LENGTH + PUPPET_PEEK.len(),
        Kind::Events => {
            let m = manifest(w, sh, 1).unwrap();
            let run = exec(w, m, &defaults);
            if !run.is_success() {
                return Err(format!("calibration run failed: {}", run.outcome_string()));
            }
            let ev = &run.commit().unwrap().application_events;
            ev.iter().position(|(id, _)| is_puppet_event(w, id)).ok_or("calibration: own event not in the receipt")?
        }
        Kind::Logs => {
            let m = manifest(w, sh, 1).unwrap();
            let run = exec(w, m, &defaults);
            if !run.is_success() {
                return Err(format!("calibration run failed: {}", run.outcome_string()));
            }
            let logs = &run.commit().unwrap().application_logs;
            logs.iter().position(|(_, l)| l == "own").ok_or("calibration: own log not in the receipt")?
        }
        Kind::EventSize | Kind::LogSize | Kind::PanicSize => 0,
    })
}

fn small_limit(g: &mut Gen, sh: &Shape) -> usize {
    let (lo, hi) = match sh.kind {
        Kind::Depth => (2 + sh.extra.max(1), 12),
        Kind::KeyMap | Kind::KeyIndex | Kind::KeySorted => (96, 400),
        Kind::ValueKv | Kind::ValueField => (700, 4000),
        Kind::PayloadFn | Kind::PayloadMethod => (300, 3000),
        Kind::Events => (4, 40),
        Kind::Logs => (2, 40),
        Kind::EventSize => (64, 600),
        Kind::LogSize | Kind::PanicSize => (2, 600),
    };
    g.range_usize(lo, hi)
}

fn floor_limit(sh: &Shape) -> usize {
    match sh.kind {
        Kind::Depth => 2 + sh.extra.max(1),
        Kind::KeyMap | Kind::KeyIndex | Kind::KeySorted => 96,
        Kind::ValueKv | Kind::ValueField => 700,
        Kind::PayloadFn | Kind::PayloadMethod => 300,
        Kind::Events => 4,
        Kind::Logs => 2,
        Kind::EventSize => 64,
        Kind::LogSize | Kind::PanicSize => 2,
    }
}

fn build(w: &mut World) {
    let pkg = w.puppet_p;
    let g = new_puppet_component(w, pkg, OwnerSpec::None, false);
    w.set_ext(Ext { g, track_floor: 0, heap_floor: 0 });
    // the smallest byte totals under which the two `bytes` manifests run at all (bisection over the limit)
    w.freeze();
    let mut floors = [0usize; 2];
    for (i, heap) in [true, false].into_iter().enumerate() {
        let bs = ByteShape { heap, objects: 1, churn: 1 };
        let (mut lo, mut hi) = (0usize, 8 << 20);
        // invariant: fails at lo, succeeds at hi
        while hi - lo > 1 {
            let mid = lo + (hi - lo) / 2;
            let m = bytes_manifest(w, &bs, 8).unwrap();
            let run = exec(w, m, &bytes_limits(heap, mid));
            if run.is_success() {
                hi = mid;
            } else {
                lo = mid;
            }
        }
        floors[i] = hi;
    }
    w.reset();
    w.set_ext(Ext { g, heap_floor: floors[0], track_floor: floors[1] });
}

fn threshold_case(g: &mut Gen) -> Outcome {
    let kinds = [
        Kind::Depth,
        Kind::KeyMap,
        Kind::KeyIndex,
        Kind::KeySorted,
        Kind::ValueKv,
        Kind::ValueField,
        Kind::PayloadFn,
        Kind::PayloadMethod,
        Kind::Events,
        Kind::Logs,
        Kind::EventSize,
        Kind::LogSize,
        Kind::PanicSize,
    ];
    let kind = *g.pick(&kinds);
    let via_method = g.bool();
    let extra = if kind == Kind::Depth { g.below(4) as usize } else { 0 };
    let sh = Shape { kind, extra, via_method };
    let use_default = default_limit(kind).is_some() && g.chance(1, 4);
    g.label(kind.name());

    with_world("c49", no_genesis, build, |w| {
        let b = match overhead(w, &sh) {
            Ok(b) => b,
            Err(e) => return Outcome::fail(format!("harness: C49 calibration of {} failed", kind.name()), e),
        };
        let mut l = if use_default { default_limit(kind).unwrap() } else { small_limit(g, &sh) };
        let mut delta: i64 = {
            let mag = if g.chance(1, 3) { 1 + g.below(40) as i64 } else { 1 + g.below(3) as i64 };
            if g.bool() {
                mag
            } else {
                -mag
            }
        };
        if kind == Kind::Depth {
            delta = delta.clamp(-3, 3);
        }
        if (l as i64 + delta) < floor_limit(&sh) as i64 || (l as i64 + delta - b as i64) < 2 {
            delta = delta.abs();
        }
        // every probe must be expressible (SBOR length prefixes leave gaps in the reachable sizes)
        let mut found = false;
        for _ in 0..8 {
            if l < b + 1 {
                l += 1;
                continue;
            }
            let t = l - b;
            let t2 = (t as i64 + delta) as usize;
            if t >= 1 && [t - 1, t, t + 1, t2, t2 + 1].iter().all(|n| manifest(w, &sh, *n).is_some()) {
                found = true;
                break;
            }
            l += 1;
        }
        if !found {
            return Outcome::Discard;
        }
        let t = l - b;
        let p = limits_with(kind, l);
        g.label(if use_default { "protocol default limit" } else { "small generated limit" });

        let mut probes: Vec<(usize, usize, &'static str)> = vec![(t - 1, l, "threshold-1"), (t, l, "threshold"), (t + 1, l, "threshold+1")];
        let l2 = (l as i64 + delta) as usize;
        let t2 = l2 - b;
        probes.push((t2, l2, "shifted threshold"));
        probes.push((t2 + 1, l2, "shifted threshold+1"));
        // one arbitrary n on either side
        let cap = match kind {
            Kind::Depth => 16,
            _ => 2 * t + 8,
        };
        let any = g.below(cap as u64 + 1) as usize;
        if manifest(w, &sh, any).is_some() {
            probes.push((any, l, "arbitrary n"));
        }

        let mut trace = Vec::new();
        for (n, lim, what) in probes {
            let params = if lim == l { p.clone() } else { limits_with(kind, lim) };
            let m = manifest(w, &sh, n).unwrap();
            let run = exec(w, m, &params);
            let res = classify(kind, &run);
            let q = b + n;
            let within = q <= lim;
            trace.push(format!("{} n={} consumption={} limit={} -> {:?}", what, n, q, lim, res));
            let ctx = || format!("{} ({}{}), fixed part {}: {}", kind.name(), if sh.via_method { "from a method" } else { "from a function" }, if kind == Kind::Depth { format!(", bottom script nests {}", sh.extra) } else { String::new() }, b, trace.join("; "));
            if let Some(pn) = &run.panic {
                return Outcome::fail(format!("host panic while enforcing {}", kind.name()), format!("{}: {}", ctx(), pn));
            }
            match (&res, within) {
                (Res::Ok, true) => {}
                (Res::Limit(e), false) if is_expected_error(kind, e, q, lim) => {}
                (Res::Ok, false) => {
                    return Outcome::fail(format!("{}: a transaction exceeding the limit is not failed", kind.name()), ctx());
                }
                (Res::Limit(_), true) => {
                    return Outcome::fail(format!("{}: a transaction within the limit is failed for it", kind.name()), ctx());
                }
                (Res::Limit(_), false) => {
                    return Outcome::fail(format!("{}: exceeding the limit fails with another limits error", kind.name()), ctx());
                }
                (Res::Other(_), _) => {
                    return Outcome::fail(format!("harness: C49 probe of {} ended unexpectedly", kind.name()), ctx());
                }
            }
            if let Err(e) = post_condition(&run, &params) {
                return Outcome::fail("a committed successful transaction exceeds a configured limit", format!("{}: {}", ctx(), e));
            }
            g.count("runs", 1);
        }
        g.nontrivial();
        g.sample(|| format!("{} b={} L={} delta={}: {}", kind.name(), b, l, delta, trace.join("; ")));
        Outcome::Pass
    })
}

// ---- heap / track byte totals -------------------------------------------------------------------------

#[derive(Clone, Copy, Debug)]
struct ByteShape {
    heap: bool,
    /// objects kept alive at once (heap) / entries written (track)
    objects: usize,
    /// heap only: times each object is created and dropped again before the final creation
    churn: usize,
}

fn bytes_limits(heap: bool, l: usize) -> LimitParameters {
    let mut p = LimitParameters::babylon_genesis();
    if heap {
        p.max_heap_substate_total_bytes = l;
    } else {
        p.max_track_substate_total_bytes = l;
    }
    p
}

/// heap: `objects` puppet objects with an `n`-byte field alive at once (after `churn-1` create/drop rounds),
/// dropped at the end; track: `objects` KV entries of `n` bytes written to a global component.
fn bytes_manifest(w: &World, bs: &ByteShape, n: usize) -> Option<TransactionManifestV1> {
    let payload = sized_payload(n)?;
    let unit = scrypto_encode(&()).unwrap();
    if bs.heap {
        let mut ops = Vec::new();
        let mut slot = 0u8;
        let new = |ops: &mut Vec<Op>| {
            ops.push(Op::NewObject {
                blueprint: PUPPET_BLUEPRINT.into(),
                fields: vec![(0, payload.clone(), false), (1, unit.clone(), false), (2, unit.clone(), false)],
                kv: vec![],
            })
        };
        for _ in 1..bs.churn {
            new(&mut ops);
            ops.push(Op::DropObject(N::Slot(slot)));
            slot += 2;
        }
        let first = slot;
        for _ in 0..bs.objects {
            new(&mut ops);
            slot += 1;
        }
        for i in 0..bs.objects {
            ops.push(Op::DropObject(N::Slot(first + i as u8)));
        }
        Some(w.puppet_manifest(w.puppet_p, &Script(ops)))
    } else {
        let mut ops = Vec::new();
        for i in 0..bs.objects {
            ops.push(Op::ActorOpenKv { state: 0, collection: PUPPET_COLL_KV, key: scrypto_encode(&(i as u32)).unwrap(), flags: 1 });
            ops.push(Op::KvSet((3 * i) as u8, payload.clone()));
            ops.push(Op::KvClose((3 * i) as u8));
        }
        Some(puppet_method_manifest(w.ext::<Ext>().g, PUPPET_ACT, &Script(ops)))
    }
}

fn bytes_case(g: &mut Gen) -> Outcome {
    let heap = g.bool();
    let objects = 1 + g.below(3) as usize;
    let churn = if heap && g.bool() { 2 + g.below(4) as usize } else { 1 };
    let bs = ByteShape { heap, objects, churn };
    let name = if heap { "heap bytes" } else { "track bytes" };
    g.label(name);
    with_world("c49", no_genesis, build, |w| {
        let floor = if heap { w.ext::<Ext>().heap_floor } else { w.ext::<Ext>().track_floor };
        // room for payloads of up to a few thousand bytes per object above what the transaction itself needs
        // (the floor was measured with one small object; further objects cost a few hundred bytes each)
        let l = floor + objects * 600 + g.below(6000) as usize;
        let wrong = |e: &TransactionLimitsError| -> bool {
            !matches!((heap, e), (true, TransactionLimitsError::HeapSubstateSizeExceeded { .. }) | (false, TransactionLimitsError::TrackSubstateSizeExceeded { .. }))
        };
        let mut runs = 0u64;
        let mut trace: Vec<String> = Vec::new();
        // Ok(true) = succeeds, Ok(false) = fails with this limit's error
        let mut probe = |w: &mut World, bs: &ByteShape, n: usize, lim: usize, trace: &mut Vec<String>| -> Result<bool, Outcome> {
            let Some(m) = bytes_manifest(w, bs, n) else { return Err(Outcome::Discard) };
            let run = exec(w, m, &bytes_limits(heap, lim));
            runs += 1;
            let res = classify(Kind::ValueKv, &run);
            trace.push(format!("objects={} churn={} n={} limit={} -> {}", bs.objects, bs.churn, n, lim, match &res { Res::Ok => "ok".to_string(), other => format!("{:?}", other) }));
            if let Some(pn) = &run.panic {
                return Err(Outcome::fail(format!("host panic while enforcing {}", name), format!("{}: {}", trace.join("; "), pn)));
            }
            match res {
                Res::Ok => Ok(true),
                Res::Limit(e) if !wrong(&e) => Ok(false),
                Res::Limit(_) => Err(Outcome::fail(format!("{}: exceeding the limit fails with another limits error", name), trace.join("; "))),
                Res::Other(_) => Err(Outcome::fail(format!("harness: C49 probe of {} ended unexpectedly", name), trace.join("; "))),
            }
        };
        macro_rules! p {
            ($bs:expr, $n:expr, $lim:expr) => {
                match probe(w, $bs, $n, $lim, &mut trace) {
                    Ok(v) => v,
                    Err(o) => return o,
                }
            };
        }
        let plain = ByteShape { churn: 1, ..bs };
        // bisection for the largest accepted n (sizes 130..140 and the like have gaps: stay on Vec<u8> shapes)
        // a payload as large as the limit itself cannot fit
        let (mut lo, mut hi) = (8usize, if heap { l } else { l.min(l - floor + 3000) });
        if !p!(&plain, lo, l) {
            return Outcome::fail(format!("harness: C49 {} floor does not admit the smallest payload", name), trace.join("; "));
        }
        if p!(&plain, hi, l) {
            return Outcome::fail(format!("{}: a transaction exceeding the limit is not failed", name), format!("payload far above the remaining room accepted: {}", trace.join("; ")));
        }
        while hi - lo > 1 {
            let mid = lo + (hi - lo) / 2;
            if p!(&plain, mid, l) {
                lo = mid;
            } else {
                hi = mid;
            }
        }
        let t = lo;
        // monotone: anything below the threshold succeeds, anything above fails
        for _ in 0..2 {
            let below = g.range_usize(8, t);
            ensure!(p!(&plain, below, l), format!("{}: not monotone (a smaller transaction fails where a larger one succeeds)", name), "threshold {}: {}", t, trace.join("; "));
            let above = t + 1 + g.below(3000) as usize;
            ensure!(!p!(&plain, above, l), format!("{}: not monotone (a larger transaction succeeds where a smaller one fails)", name), "threshold {}: {}", t, trace.join("; "));
        }
        // shift: `objects` payloads of n bytes each: moving the limit by objects*D moves the threshold by D
        let d = {
            let mag = 1 + g.below(200) as i64;
            if g.bool() && (t as i64 - mag) > 16 && l as i64 - (objects as i64 * mag) >= (floor + objects * 600) as i64 {
                -mag
            } else {
                mag
            }
        };
        let l2 = (l as i64 + objects as i64 * d) as usize;
        let t2 = (t as i64 + d) as usize;
        ensure!(p!(&plain, t2, l2), format!("{}: moving the limit does not move the threshold by the same amount", name), "threshold {} at limit {}; at limit {} n={} fails: {}", t, l, l2, t2, trace.join("; "));
        ensure!(!p!(&plain, t2 + 1, l2), format!("{}: moving the limit does not move the threshold by the same amount", name), "threshold {} at limit {}; at limit {} n={} succeeds: {}", t, l, l2, t2 + 1, trace.join("; "));
        if churn > 1 {
            // objects created and dropped earlier do not count: same threshold
            g.label("heap: create/drop churn before the measured objects");
            ensure!(p!(&bs, t, l), "heap bytes: dropped objects still count against the limit", "threshold {} without churn: {}", t, trace.join("; "));
            ensure!(!p!(&bs, t + 1, l), "heap bytes: threshold differs after create/drop churn", "threshold {} without churn: {}", t, trace.join("; "));
        }
        g.count("runs", runs);
        g.nontrivial();
        g.sample(|| format!("{} limit {} (floor {}), threshold {}: {}", name, l, floor, t, trace.join("; ")));
        Outcome::Pass
    })
}

pub fn check() -> Check {
    Check::new(
        "C49",
        "Execution limits are enforced exactly",
        "part threshold: one of 13 limit shapes (call depth via recurse(n) with a bottom script nesting 0-3 further frames; key size of a KV / index / sorted-index collection entry; value size of a KV entry / field; invocation payload size of a function / method call; number of events / logs; event / log / panic-message size), emitted from a puppet function or from a method of a global puppet component, under LimitParameters overriding that one limit with a small generated value (3 in 4) or the protocol default (where reachable); consumption(n) = fixed part + n, the fixed part stated structurally (depth: frames below the transaction processor; sorted key +2; payload: callee-naming bytes) or measured from an unconstrained run (stored substate length read back from the database; position of the first own event / log in the receipt). Six probes per case: threshold-1, threshold, threshold+1, the same two after moving the limit by D in +-1..40, and one arbitrary n; each must succeed iff consumption <= limit and otherwise fail with exactly that TransactionLimitsError (reported sizes compared); every committed success is also scanned for keys / values / logs / events above the configured limits. part bytes: heap (1-3 puppet objects with an n-byte field alive at once, optionally after 1-5 create/drop rounds) or track (1-3 n-byte KV entries written to a global component) under a byte total a little above what the transaction itself needs; the largest accepted n found by bisection, then 4 monotonicity probes, shift-by-D (limit + objects*D moves the threshold by D) and churn invariance. Non-trivial = a run at threshold or threshold+1 (every evaluated case). Distinct = distinct decoded choice sequences.",
    )
    .assume("the other ten limits stay at their protocol values while one is varied")
    .assume("protocol defaults of value size (2 MiB), payload size (1 MiB) and heap/track totals (64 MiB) are not reached: a carrier invocation that large is itself over the 1 MiB payload limit; those limits are exercised with small overrides only")
    .assume("heap/track byte totals: shift-by-D, monotonicity and churn invariance only (the absolute accounting contains envelope bytes the harness does not model)")
    .assume("the event-count limit is judged on events emitted during execution; fee events appended at finalization are not counted by the engine and not by the check")
    .part(Part::new("threshold", 1600, 100_000, 64, threshold_case))
    .part(Part::new("bytes", 400, 20_000, 64, bytes_case))
    .min_nontrivial_pct(50.0)
}
