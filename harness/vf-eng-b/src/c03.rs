//! C03 Every committed transaction conserves resources.

use crate::judge::*;
use crate::mgen::*;
use crate::session::*;
use vf_core::{Check, Gen, Outcome, Part};
use vf_world::*;

pub fn covered(wd: &Wd) -> ModelMintBurn {
    ModelMintBurn::nothing(wd.res.iter().map(|r| r.addr))
}

fn case(g: &mut Gen) -> Outcome {
    with_world(WORLD_KEY, no_genesis, build, |w| {
        let mut s = Session::new(w);
        let n = 2 + g.below(4);
        let prof = Profile::mixed();
        let mut rendered = Vec::new();
        let mut nontrivial = false;
        for _ in 0..n {
            let (what, obs, model): (String, Obs, Option<ModelMintBurn>) = match g.weighted(&[12, 5, 2]) {
                0 => {
                    let (plan, obs, _) = s.step(g, &prof);
                    let actual = match obs.outcome() {
                        Ok(o) => o,
                        Err(f) => return Outcome::Fail(f),
                    };
                    // the manifest model is a source only when the transaction did what it predicts
                    let model = match (&plan.predicted, actual) {
                        (Ok(()), Outcome3::Success) => Some(ModelMintBurn::of(&plan, &s.wd)),
                        (Err(_), Outcome3::Failure) => Some(covered(&s.wd)),
                        (Err(_), Outcome3::Rejected) => None,
                        _ => {
                            g.count("model_outcome_mismatch", 1);
                            None
                        }
                    };
                    g.label(match actual {
                        Outcome3::Success => "manifest_success",
                        Outcome3::Failure => "manifest_failure",
                        Outcome3::Rejected => "manifest_rejected",
                    });
                    if plan.fee_accounts.len() > 0 {
                        g.label("fee_from_account");
                    }
                    (plan.render(), obs, model)
                }
                1 => {
                    let (op, obs) = s.opaque(g);
                    if let Err(f) = opaque_expectation(&op, &obs) {
                        return Outcome::Fail(f);
                    }
                    if matches!(op, Opaque::ProtectedWithdraw { .. }) {
                        g.label(if obs.run.is_success() { "pool_protected_withdraw_ok" } else { "pool_protected_withdraw_refused" });
                    }
                    let committed = obs.run.is_commit();
                    g.label(match (&op, obs.run.is_success()) {
                        (Opaque::Stake { .. }, true) => "stake_ok",
                        (Opaque::Unstake { .. }, true) => "unstake_ok",
                        (Opaque::Claim { .. }, true) => "claim_ok",
                        (Opaque::Contribute { .. }, true) => "pool_contribute_ok",
                        (Opaque::Redeem { .. }, true) => "pool_redeem_ok",
                        _ => "opaque_not_successful",
                    });
                    let model = if committed { Some(covered(&s.wd)) } else { None };
                    (format!("{:?}", op), obs, model)
                }
                _ => {
                    let obs = s.next_round();
                    g.label("epoch_change");
                    ("next_round".to_string(), obs, None)
                }
            };
            if let Err(f) = obs.outcome() {
                return Outcome::Fail(f);
            }
            let stats = match conservation(&obs, model.as_ref()) {
                Ok(st) => st,
                Err(mut f) => {
                    f.message = format!("{} ; transaction: {}", f.message, what);
                    return Outcome::Fail(f);
                }
            };
            g.count("transactions", 1);
            if obs.run.is_success() && (stats.resources_changed >= 2 || stats.minted_or_burned) {
                nontrivial = true;
                g.count("nontrivial_transactions", 1);
            }
            if stats.minted_or_burned {
                g.label("mint_or_burn");
            }
            if g.want_sample() {
                rendered.push(format!("{} ; actual: {}", what, obs.run.outcome_string()));
            }
        }
        if nontrivial {
            g.nontrivial();
        }
        g.sample(|| rendered.join(" || "));
        Outcome::Pass
    })
}

pub fn check() -> Check {
    Check::new(
        "C03",
        "Every committed transaction conserves resources",
        "2-5 transactions per case on the standard world: generated manifests (withdraw / deposit / mint fungible, explicit-id and RUID non-fungibles / burn from buckets and vaults / recall / freeze / proofs / fee from faucet or accounts; succeeding and failing), hand-shaped validator stake / unstake / claim and one-resource-pool contribute / redeem transactions with generated amounts, rejected transactions, and consensus rounds ending the epoch (emissions). Oracle per committed transaction and per resource: sum over all vaults of (balance after - before), decoded from the raw vault substates by the harness's own full scan, equals minted - burnt according to the Mint/Burn events (XRD: the fee burn event, which must equal fee_destination.to_burn), to the TotalSupply substate delta (tracked resources), and to the manifest model when the transaction behaved as the model predicts; non-fungibles by id sets. The receipt's vault_balance_changes is compared with the substates as a consistency check. free_credit_in_xrd must be 0. Non-trivial = a successful commit that changed >= 2 resources or minted / burnt.",
    )
    .assume("vault balances are decoded with the repository's substate types by vf-world's scan (enumeration and summation are the harness's own)")
    .part(Part::new("transactions", 1500, 60_000, 900, case))
    .min_nontrivial_pct(30.0)
}
