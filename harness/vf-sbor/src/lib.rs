//! vf-sbor: SBOR wire reference (R2), value / payload generators (R3) and the checks C20, C21, C23.

pub mod alloc_hook;
pub mod c20;
pub mod c21;
pub mod c23;
pub mod conv;
pub mod schemair;
pub mod typed;
pub mod valgen;
pub mod wire;

pub fn checks() -> Vec<vf_core::Check> {
    vec![c20::check(), c21::check(), c23::check()]
}
