//! R8: grammar-based generator of WebAssembly text (assembled with `wat::parse_str`).
//!
//! Typed expression trees over i32/i64 (f32/f64 only through the float toggles), locals, globals,
//! loads/stores, block/loop/if/br/br_if/br_table, direct calls (to higher-numbered functions only,
//! so the static call graph is a DAG), indirect calls through a table of leaf functions, bounded
//! loops (a private counter per loop plus a module-wide fuel global), data segments, host imports,
//! an optional parameter-driven recursive function, and one "toggle" per sandbox rule.
//!
//! Every function is total by construction: loops decrement their counter at the loop head, calls
//! go down the DAG, the recursive function counts its argument down. Traps are generated on purpose
//! (unreachable, division, out-of-bounds access, indirect-call mismatches, stack exhaustion).

use vf_core::Gen;

#[derive(Clone, Copy, PartialEq, Eq, Debug, PartialOrd, Ord)]
pub enum Ty {
    I32,
    I64,
    F32,
    F64,
}
impl Ty {
    pub fn s(self) -> &'static str {
        match self {
            Ty::I32 => "i32",
            Ty::I64 => "i64",
            Ty::F32 => "f32",
            Ty::F64 => "f64",
        }
    }
    pub fn is_float(self) -> bool {
        matches!(self, Ty::F32 | Ty::F64)
    }
}

#[derive(Clone, Debug, PartialEq, Eq)]
pub struct Sig {
    pub params: Vec<Ty>,
    pub result: Option<Ty>,
}
impl Sig {
    pub fn render(&self) -> String {
        let mut s = String::new();
        if !self.params.is_empty() {
            s.push_str(" (param");
            for p in &self.params {
                s.push(' ');
                s.push_str(p.s());
            }
            s.push(')');
        }
        if let Some(r) = self.result {
            s.push_str(&format!(" (result {})", r.s()));
        }
        s
    }
}

const I: Ty = Ty::I32;
const L: Ty = Ty::I64;

pub struct HostFn {
    pub name: &'static str,
    pub params: &'static [Ty],
    pub result: Option<Ty>,
    /// 0 = every VM version, 1 = from V1_1 (crypto utils v1), 2 = from V1_2 (crypto utils v2)
    pub min_version: u8,
}

/// The host interface of Scrypto packages, transcribed from the `extern "C"` declarations in
/// `scrypto/src/engine/wasm_api.rs` (pointers, lengths, handles and flags are i32; `Buffer` is i64).
pub const HOST_FNS: &[HostFn] = &[
    HostFn { name: "buffer_consume", params: &[I, I], result: None, min_version: 0 },
    HostFn { name: "actor_get_package_address", params: &[], result: Some(L), min_version: 0 },
    HostFn { name: "actor_get_blueprint_name", params: &[], result: Some(L), min_version: 0 },
    HostFn { name: "sys_get_transaction_hash", params: &[], result: Some(L), min_version: 0 },
    HostFn { name: "sys_generate_ruid", params: &[], result: Some(L), min_version: 0 },
    HostFn { name: "costing_get_execution_cost_unit_limit", params: &[], result: Some(I), min_version: 0 },
    HostFn { name: "costing_get_tip_percentage", params: &[], result: Some(I), min_version: 0 },
    HostFn { name: "sys_log", params: &[I, I, I, I], result: None, min_version: 0 },
    HostFn { name: "sys_panic", params: &[I, I], result: None, min_version: 0 },
    HostFn { name: "sys_bech32_encode_address", params: &[I, I], result: Some(L), min_version: 0 },
    HostFn { name: "actor_emit_event", params: &[I, I, I, I, I], result: None, min_version: 0 },
    HostFn { name: "actor_get_object_id", params: &[I], result: Some(L), min_version: 0 },
    HostFn { name: "actor_open_field", params: &[I, I, I], result: Some(I), min_version: 0 },
    HostFn { name: "blueprint_call", params: &[I, I, I, I, I, I, I, I], result: Some(L), min_version: 0 },
    HostFn { name: "address_allocate", params: &[I, I, I, I], result: Some(L), min_version: 0 },
    HostFn { name: "address_get_reservation_address", params: &[I, I], result: Some(L), min_version: 0 },
    HostFn { name: "object_new", params: &[I, I, I, I], result: Some(L), min_version: 0 },
    HostFn { name: "object_globalize", params: &[I, I, I, I, I, I], result: Some(L), min_version: 0 },
    HostFn { name: "object_instance_of", params: &[I, I, I, I, I, I], result: Some(I), min_version: 0 },
    HostFn { name: "object_get_blueprint_id", params: &[I, I], result: Some(L), min_version: 0 },
    HostFn { name: "object_get_outer_object", params: &[I, I], result: Some(L), min_version: 0 },
    HostFn { name: "object_call", params: &[I, I, I, I, I, I], result: Some(L), min_version: 0 },
    HostFn { name: "object_call_direct", params: &[I, I, I, I, I, I], result: Some(L), min_version: 0 },
    HostFn { name: "object_call_module", params: &[I, I, I, I, I, I, I], result: Some(L), min_version: 0 },
    HostFn { name: "kv_store_new", params: &[I, I], result: Some(L), min_version: 0 },
    HostFn { name: "kv_store_open_entry", params: &[I, I, I, I, I], result: Some(I), min_version: 0 },
    HostFn { name: "kv_store_remove_entry", params: &[I, I, I, I], result: Some(L), min_version: 0 },
    HostFn { name: "kv_entry_read", params: &[I], result: Some(L), min_version: 0 },
    HostFn { name: "kv_entry_write", params: &[I, I, I], result: None, min_version: 0 },
    HostFn { name: "kv_entry_remove", params: &[I], result: Some(L), min_version: 0 },
    HostFn { name: "kv_entry_close", params: &[I], result: None, min_version: 0 },
    HostFn { name: "field_entry_read", params: &[I], result: Some(L), min_version: 0 },
    HostFn { name: "field_entry_write", params: &[I, I, I], result: None, min_version: 0 },
    HostFn { name: "field_entry_close", params: &[I], result: None, min_version: 0 },
    HostFn { name: "costing_get_execution_cost_unit_price", params: &[], result: Some(L), min_version: 0 },
    HostFn { name: "costing_get_finalization_cost_unit_limit", params: &[], result: Some(I), min_version: 0 },
    HostFn { name: "costing_get_finalization_cost_unit_price", params: &[], result: Some(L), min_version: 0 },
    HostFn { name: "costing_get_usd_price", params: &[], result: Some(L), min_version: 0 },
    HostFn { name: "costing_get_fee_balance", params: &[], result: Some(L), min_version: 0 },
    HostFn { name: "crypto_utils_bls12381_v1_verify", params: &[I, I, I, I, I, I], result: Some(I), min_version: 1 },
    HostFn { name: "crypto_utils_bls12381_v1_aggregate_verify", params: &[I, I, I, I], result: Some(I), min_version: 1 },
    HostFn { name: "crypto_utils_bls12381_v1_fast_aggregate_verify", params: &[I, I, I, I, I, I], result: Some(I), min_version: 1 },
    HostFn { name: "crypto_utils_bls12381_g2_signature_aggregate", params: &[I, I], result: Some(L), min_version: 1 },
    HostFn { name: "crypto_utils_keccak256_hash", params: &[I, I], result: Some(L), min_version: 1 },
    HostFn { name: "crypto_utils_blake2b_256_hash", params: &[I, I], result: Some(L), min_version: 2 },
    HostFn { name: "crypto_utils_ed25519_verify", params: &[I, I, I, I, I, I], result: Some(I), min_version: 2 },
    HostFn { name: "crypto_utils_secp256k1_ecdsa_verify", params: &[I, I, I, I, I, I], result: Some(I), min_version: 2 },
    HostFn { name: "crypto_utils_secp256k1_ecdsa_verify_and_key_recover", params: &[I, I, I, I], result: Some(L), min_version: 2 },
    HostFn { name: "crypto_utils_secp256k1_ecdsa_verify_and_key_recover_uncompressed", params: &[I, I, I, I], result: Some(L), min_version: 2 },
];

pub fn host_fn(name: &str) -> Option<&'static HostFn> {
    HOST_FNS.iter().find(|h| h.name == name)
}

// The limits of the sandbox, as documented in radix-common/src/constants/wasm.rs.
pub const LIM_MEMORY_PAGES: u32 = 64;
pub const LIM_TABLE: u32 = 1024;
pub const LIM_BR_TABLE: u32 = 256;
pub const LIM_GLOBALS: u32 = 512;
pub const LIM_FUNCTIONS: u32 = 8 * 1024;
pub const LIM_PARAMS: u32 = 32;
pub const LIM_LOCALS: u32 = 256;

/// One deliberate deviation from an ordinary module. `Bad*` toggles break exactly one sandbox rule
/// (the module is otherwise valid); `Edge*` toggles sit exactly on a limit and stay valid.
#[derive(Clone, Copy, PartialEq, Eq, Debug)]
pub enum Toggle {
    None,
    // ---- violations
    Start,
    SecondMemory,
    MemInitialTooBig,
    MemMaxTooBig,
    NoMemory,
    MemoryNotExported,
    MemoryExportRenamed,
    TooManyFunctions,
    TooManyParams,
    TooManyLocals,
    TooManyGlobals,
    BigBrTable,
    BigTable,
    ForeignImportModule,
    UnknownEnvImport,
    GasImport,
    NonFuncEnvImport,
    WrongImportSig,
    FutureImport,
    FloatParam,
    FloatResult,
    FloatLocal,
    FloatGlobal,
    FloatConst,
    FloatOp,
    FloatMem,
    FloatConv,
    FloatImportSig,
    // ---- on the limit (valid)
    EdgeMemory,
    EdgeParams,
    EdgeLocals,
    EdgeGlobals,
    EdgeBrTable,
    EdgeTable,
    EdgeFunctions,
}

pub const BAD_TOGGLES: &[Toggle] = &[
    Toggle::Start,
    Toggle::SecondMemory,
    Toggle::MemInitialTooBig,
    Toggle::MemMaxTooBig,
    Toggle::NoMemory,
    Toggle::MemoryNotExported,
    Toggle::MemoryExportRenamed,
    Toggle::TooManyParams,
    Toggle::TooManyLocals,
    Toggle::TooManyGlobals,
    Toggle::BigBrTable,
    Toggle::BigTable,
    Toggle::ForeignImportModule,
    Toggle::UnknownEnvImport,
    Toggle::GasImport,
    Toggle::NonFuncEnvImport,
    Toggle::WrongImportSig,
    Toggle::FutureImport,
    Toggle::FloatParam,
    Toggle::FloatResult,
    Toggle::FloatLocal,
    Toggle::FloatGlobal,
    Toggle::FloatConst,
    Toggle::FloatOp,
    Toggle::FloatMem,
    Toggle::FloatConv,
    Toggle::FloatImportSig,
    Toggle::TooManyFunctions,
];
pub const EDGE_TOGGLES: &[Toggle] = &[
    Toggle::EdgeMemory,
    Toggle::EdgeParams,
    Toggle::EdgeLocals,
    Toggle::EdgeGlobals,
    Toggle::EdgeBrTable,
    Toggle::EdgeTable,
    Toggle::EdgeFunctions,
];

impl Toggle {
    pub fn is_violation(self) -> bool {
        BAD_TOGGLES.contains(&self)
    }
    pub fn is_edge(self) -> bool {
        EDGE_TOGGLES.contains(&self)
    }
    pub fn label(self) -> &'static str {
        match self {
            Toggle::None => "plain",
            Toggle::Start => "bad:start",
            Toggle::SecondMemory => "bad:second_memory",
            Toggle::MemInitialTooBig => "bad:memory_initial_65",
            Toggle::MemMaxTooBig => "bad:memory_max_65",
            Toggle::NoMemory => "bad:no_memory",
            Toggle::MemoryNotExported => "bad:memory_not_exported",
            Toggle::MemoryExportRenamed => "bad:memory_export_renamed",
            Toggle::TooManyFunctions => "bad:functions_8193",
            Toggle::TooManyParams => "bad:params_33",
            Toggle::TooManyLocals => "bad:locals_257",
            Toggle::TooManyGlobals => "bad:globals_513",
            Toggle::BigBrTable => "bad:br_table_257",
            Toggle::BigTable => "bad:table_1025",
            Toggle::ForeignImportModule => "bad:import_other_module",
            Toggle::UnknownEnvImport => "bad:import_unknown_name",
            Toggle::GasImport => "bad:import_gas",
            Toggle::NonFuncEnvImport => "bad:import_non_function",
            Toggle::WrongImportSig => "bad:import_wrong_signature",
            Toggle::FutureImport => "bad:import_newer_than_vm_version",
            Toggle::FloatParam => "bad:float_param",
            Toggle::FloatResult => "bad:float_result",
            Toggle::FloatLocal => "bad:float_local",
            Toggle::FloatGlobal => "bad:float_global",
            Toggle::FloatConst => "bad:float_const",
            Toggle::FloatOp => "bad:float_op",
            Toggle::FloatMem => "bad:float_load_store",
            Toggle::FloatConv => "bad:float_conversion",
            Toggle::FloatImportSig => "bad:float_in_unused_type",
            Toggle::EdgeMemory => "edge:memory_64",
            Toggle::EdgeParams => "edge:params_32",
            Toggle::EdgeLocals => "edge:locals_256",
            Toggle::EdgeGlobals => "edge:globals_512",
            Toggle::EdgeBrTable => "edge:br_table_256",
            Toggle::EdgeTable => "edge:table_1024",
            Toggle::EdgeFunctions => "edge:functions_8192",
        }
    }
}

#[derive(Clone, Debug)]
pub struct Opts {
    pub toggle: Toggle,
    /// VM version the module is meant for (0, 1, 2): host imports are drawn from that version's list.
    pub vm_version: u8,
    /// maximal number of ordinary functions
    pub max_funcs: usize,
    /// Salt mixed into the *free* integer constants of straight-line functions (structural twins:
    /// two modules generated from the same tape with different salts differ only in those immediates).
    pub salt: u64,
    /// export every global as g<i> and a set of entry functions e<i> (C46)
    pub export_all: bool,
    /// allow the parameter-driven recursive function
    pub recursion: bool,
}

impl Default for Opts {
    fn default() -> Self {
        Opts { toggle: Toggle::None, vm_version: 2, max_funcs: 6, salt: 0, export_all: false, recursion: false }
    }
}

#[derive(Clone, Debug)]
pub struct Export {
    pub name: String,
    pub sig: Sig,
    /// no control flow, calls, memory access, division or growth: one metered block, one path
    pub straight: bool,
    /// calls the recursive function with an argument-derived depth
    pub recursive: bool,
}

#[derive(Clone, Debug, Default)]
pub struct Stats {
    pub funcs: usize,
    pub loops: usize,
    pub calls: usize,
    pub indirect_calls: usize,
    pub ifs: usize,
    pub br_tables: usize,
    pub host_calls: usize,
    pub mem_ops: usize,
    pub grows: usize,
    pub traps: usize,
}

#[derive(Clone, Debug)]
pub struct Module {
    /// the module text
    pub wat: String,
    /// the same text with an explicit memory maximum of 64 pages where the module declares none
    /// (what the validator's `inject_max` turns the module into; used as the differential reference)
    pub wat_ref: String,
    pub toggle: Toggle,
    pub exports: Vec<Export>,
    /// exported globals (name, type)
    pub globals: Vec<(String, Ty)>,
    pub imports: Vec<&'static str>,
    pub stats: Stats,
    pub mem_pages: u32,
    pub mem_max: Option<u32>,
}

struct FuncDecl {
    sig: Sig,
    /// makes no calls (may sit in the table)
    leaf: bool,
    straight: bool,
}

struct ModCtx {
    opts: Opts,
    funcs: Vec<FuncDecl>,
    /// imported host functions, in import order
    imports: Vec<&'static HostFn>,
    /// (type, mutable); global 0 is the fuel counter
    globals: Vec<(Ty, bool)>,
    /// table slots: Some(function index) or None (null)
    table: Vec<Option<usize>>,
    table_declared: Option<u32>,
    types: Vec<Sig>,
    rec: bool,
    mem_pages: u32,
    /// the module has no memory: no loads, stores, memory.size / memory.grow, data segments
    no_mem: bool,
    stats: Stats,
}

#[derive(Clone, Copy)]
struct Label {
    id: usize,
}

struct FCtx {
    idx: usize,
    /// params then general-purpose locals
    vars: Vec<Ty>,
    n_params: usize,
    /// loop counters (i32 locals appended after `vars`)
    counters: usize,
    labels: Vec<Label>,
    next_label: usize,
    result: Option<Ty>,
    budget: i32,
    straight: bool,
    leaf: bool,
    uses_rec: bool,
}

const INTERESTING_32: &[i64] = &[0, 1, 2, -1, 7, 8, 0x7fff_ffff, -0x8000_0000, 0xffff, 0x1_0000, 31, 32, 255, 256, 65535, 65536, 0x0fff_fff0];
const INTERESTING_64: &[i64] = &[0, 1, -1, 2, i64::MAX, i64::MIN, 0xffff_ffff, 0x1_0000_0000, 63, 64, 0x7fff_ffff, -0x8000_0000, 3, 1 << 32 | 3];

fn const_of(g: &mut Gen, ty: Ty, salt: u64) -> String {
    let v: i64 = match ty {
        Ty::I32 => match g.weighted(&[4, 3, 2]) {
            0 => g.below(16) as i64,
            1 => *g.pick(INTERESTING_32),
            _ => g.u32() as i32 as i64,
        },
        _ => match g.weighted(&[4, 3, 2]) {
            0 => g.below(16) as i64,
            1 => *g.pick(INTERESTING_64),
            _ => g.u64() as i64,
        },
    };
    match ty {
        Ty::I32 => format!("(i32.const {})", (v as i32) ^ (salt as i32)),
        Ty::I64 => format!("(i64.const {})", v ^ (salt as i64)),
        Ty::F32 => format!("(f32.const {})", (v % 1000) as f32 / 8.0),
        Ty::F64 => format!("(f64.const {})", (v % 1000) as f64 / 8.0),
    }
}

impl FCtx {
    fn vars_of(&self, ty: Ty) -> Vec<usize> {
        self.vars.iter().enumerate().filter(|(_, t)| **t == ty).map(|(i, _)| i).collect()
    }
}

impl ModCtx {
    fn salt_for(&self, f: &FCtx) -> u64 {
        if f.straight {
            self.opts.salt
        } else {
            0
        }
    }

    fn leaf_expr(&mut self, g: &mut Gen, f: &mut FCtx, ty: Ty) -> String {
        let vars = f.vars_of(ty);
        let globals: Vec<usize> = self.globals.iter().enumerate().filter(|(i, (t, _))| *t == ty && *i != 0).map(|(i, _)| i).collect();
        match g.weighted(&[3, if vars.is_empty() { 0 } else { 5 }, if globals.is_empty() { 0 } else { 2 }]) {
            0 => const_of(g, ty, self.salt_for(f)),
            1 => format!("(local.get {})", vars[g.index(vars.len())]),
            _ => format!("(global.get $g{})", globals[g.index(globals.len())]),
        }
    }

    /// An address expression that stays inside the first page (so that accesses succeed) unless
    /// `wild`, in which case anything goes (out-of-bounds traps).
    fn addr(&mut self, g: &mut Gen, f: &mut FCtx, depth: u32, wild: bool) -> String {
        let e = self.expr(g, f, Ty::I32, depth);
        if wild {
            e
        } else {
            format!("(i32.and {} (i32.const 0xfff8))", e)
        }
    }

    fn expr(&mut self, g: &mut Gen, f: &mut FCtx, ty: Ty, depth: u32) -> String {
        f.budget -= 1;
        if depth == 0 || f.budget <= 0 {
            return self.leaf_expr(g, f, ty);
        }
        let d = depth - 1;
        let t = ty.s();
        let straight = f.straight;
        // callable functions with this result type
        let callees: Vec<usize> = if f.leaf || straight {
            vec![]
        } else {
            (f.idx + 1..self.funcs.len()).filter(|j| self.funcs[*j].sig.result == Some(ty)).collect()
        };
        let host: Vec<usize> = if straight { vec![] } else { (0..self.imports.len()).filter(|j| self.imports[*j].result == Some(ty)).collect() };
        let indirect: Vec<usize> =
            if f.leaf || straight || self.table_declared.is_none() { vec![] } else { (0..self.types.len()).filter(|j| self.types[*j].result == Some(ty)).collect() };
        let w = [
            6,                                                   // 0 leaf
            10,                                                  // 1 binop
            3,                                                   // 2 unop
            if ty == Ty::I32 { 4 } else { 0 },                   // 3 relop / eqz
            3,                                                   // 4 conversion
            if straight || self.no_mem { 0 } else { 4 },         // 5 load
            2,                                                   // 6 select
            if straight { 0 } else { 3 },                        // 7 if-expression
            if straight { 0 } else { 1 },                        // 8 block with br_if carrying a value
            if callees.is_empty() { 0 } else { 4 },              // 9 call
            if host.is_empty() { 0 } else { 2 },                 // 10 host call
            if indirect.is_empty() { 0 } else { 2 },             // 11 call_indirect
            if ty == Ty::I32 && !straight && !self.no_mem { 1 } else { 0 }, // 12 memory.size / memory.grow
            2,                                                   // 13 local.tee
            if straight { 0 } else { 2 },                        // 14 div / rem
        ];
        match g.weighted(&w) {
            0 => self.leaf_expr(g, f, ty),
            1 => {
                let op = *g.pick(&["add", "sub", "mul", "and", "or", "xor", "shl", "shr_s", "shr_u", "rotl", "rotr"]);
                let a = self.expr(g, f, ty, d);
                let b = self.expr(g, f, ty, d);
                format!("({}.{} {} {})", t, op, a, b)
            }
            2 => {
                let ops: &[&str] = if ty == Ty::I32 { &["clz", "ctz", "popcnt", "extend8_s", "extend16_s"] } else { &["clz", "ctz", "popcnt", "extend8_s", "extend16_s", "extend32_s"] };
                let op = *g.pick(ops);
                let a = self.expr(g, f, ty, d);
                format!("({}.{} {})", t, op, a)
            }
            3 => {
                let ot = if g.bool() { Ty::I64 } else { Ty::I32 };
                if g.chance(1, 5) {
                    let a = self.expr(g, f, ot, d);
                    format!("({}.eqz {})", ot.s(), a)
                } else {
                    let op = *g.pick(&["eq", "ne", "lt_s", "lt_u", "gt_s", "gt_u", "le_s", "le_u", "ge_s", "ge_u"]);
                    let a = self.expr(g, f, ot, d);
                    let b = self.expr(g, f, ot, d);
                    format!("({}.{} {} {})", ot.s(), op, a, b)
                }
            }
            4 => match ty {
                Ty::I32 => {
                    let a = self.expr(g, f, Ty::I64, d);
                    format!("(i32.wrap_i64 {})", a)
                }
                _ => {
                    let a = self.expr(g, f, Ty::I32, d);
                    format!("(i64.extend_i32_{} {})", if g.bool() { "s" } else { "u" }, a)
                }
            },
            5 => {
                self.stats.mem_ops += 1;
                let wild = g.chance(1, 24);
                if wild {
                    self.stats.traps += 1;
                }
                let a = self.addr(g, f, d, wild);
                let ops: &[&str] = if ty == Ty::I32 { &["load", "load8_s", "load8_u", "load16_s", "load16_u"] } else { &["load", "load8_s", "load8_u", "load16_s", "load16_u", "load32_s", "load32_u"] };
                let op = *g.pick(ops);
                let off = if g.chance(1, 3) { format!(" offset={}", g.below(8)) } else { String::new() };
                format!("({}.{}{} {})", t, op, off, a)
            }
            6 => {
                let a = self.expr(g, f, ty, d);
                let b = self.expr(g, f, ty, d);
                let c = self.expr(g, f, Ty::I32, d);
                format!("(select {} {} {})", a, b, c)
            }
            7 => {
                self.stats.ifs += 1;
                let c = self.expr(g, f, Ty::I32, d);
                let a = self.expr(g, f, ty, d);
                let b = self.expr(g, f, ty, d);
                format!("(if (result {}) {} (then {}) (else {}))", t, c, a, b)
            }
            8 => {
                let a = self.expr(g, f, ty, d);
                let c = self.expr(g, f, Ty::I32, d);
                let b = self.expr(g, f, ty, d);
                format!("(block (result {}) (drop (br_if 0 {} {})) {})", t, a, c, b)
            }
            9 => {
                let j = callees[g.index(callees.len())];
                self.call(g, f, j, d)
            }
            10 => {
                let j = host[g.index(host.len())];
                self.host_call(g, f, j, d)
            }
            11 => {
                let j = indirect[g.index(indirect.len())];
                self.call_indirect(g, f, j, d)
            }
            12 => {
                if g.chance(1, 3) {
                    self.stats.grows += 1;
                    let a = self.expr(g, f, Ty::I32, d);
                    format!("(memory.grow (i32.and {} (i32.const 1)))", a)
                } else {
                    "(memory.size)".to_string()
                }
            }
            13 => {
                let vars = f.vars_of(ty);
                if vars.is_empty() {
                    return self.leaf_expr(g, f, ty);
                }
                let v = vars[g.index(vars.len())];
                let a = self.expr(g, f, ty, d);
                format!("(local.tee {} {})", v, a)
            }
            _ => {
                let op = *g.pick(&["div_s", "div_u", "rem_s", "rem_u"]);
                let a = self.expr(g, f, ty, d);
                let b = self.expr(g, f, ty, d);
                // mostly guarded against a zero divisor; 1 in 12 unguarded (division traps)
                if g.chance(1, 12) {
                    self.stats.traps += 1;
                    format!("({}.{} {} {})", t, op, a, b)
                } else {
                    format!("({}.{} {} ({}.or {} ({}.const 1)))", t, op, a, t, b, t)
                }
            }
        }
    }

    fn args(&mut self, g: &mut Gen, f: &mut FCtx, params: &[Ty], d: u32) -> String {
        let mut s = String::new();
        for p in params {
            s.push(' ');
            s.push_str(&self.expr(g, f, *p, d.min(2)));
        }
        s
    }

    fn call(&mut self, g: &mut Gen, f: &mut FCtx, j: usize, d: u32) -> String {
        self.stats.calls += 1;
        let params = self.funcs[j].sig.params.clone();
        let a = self.args(g, f, &params, d);
        format!("(call $f{}{})", j, a)
    }

    fn host_call(&mut self, g: &mut Gen, f: &mut FCtx, j: usize, d: u32) -> String {
        self.stats.host_calls += 1;
        let h = self.imports[j];
        let a = self.args(g, f, h.params, d);
        format!("(call $h{}{})", j, a)
    }

    fn call_indirect(&mut self, g: &mut Gen, f: &mut FCtx, type_idx: usize, d: u32) -> String {
        self.stats.indirect_calls += 1;
        let sig = self.types[type_idx].clone();
        let a = self.args(g, f, &sig.params, d);
        // slots holding a function of exactly this signature
        let good: Vec<usize> = self.table.iter().enumerate().filter(|(_, s)| s.map(|fi| self.funcs[fi].sig == sig).unwrap_or(false)).map(|(i, _)| i).collect();
        let idx = match g.weighted(&[if good.is_empty() { 0 } else { 12 }, 2, 1]) {
            0 => format!("(i32.const {})", good[g.index(good.len())]),
            1 => {
                // dynamic index inside (or one past) the initialised part: mismatches, nulls
                self.stats.traps += 1;
                let e = self.expr(g, f, Ty::I32, d.min(1));
                format!("(i32.rem_u {} (i32.const {}))", e, self.table.len() + 1)
            }
            _ => {
                self.stats.traps += 1;
                self.expr(g, f, Ty::I32, d.min(1))
            }
        };
        format!("(call_indirect (type $t{}){} {})", type_idx, a, idx)
    }

    fn stmts(&mut self, g: &mut Gen, f: &mut FCtx, n: usize, depth: u32, out: &mut String) {
        for _ in 0..n {
            if f.budget <= 0 {
                break;
            }
            self.stmt(g, f, depth, out);
        }
    }

    fn stmt(&mut self, g: &mut Gen, f: &mut FCtx, depth: u32, out: &mut String) {
        f.budget -= 1;
        let straight = f.straight;
        let nested = depth > 0 && f.budget > 0 && !straight;
        let mutable_globals: Vec<usize> = self.globals.iter().enumerate().filter(|(i, (_, m))| *m && *i != 0).map(|(i, _)| i).collect();
        let callees: Vec<usize> = if f.leaf || straight { vec![] } else { (f.idx + 1..self.funcs.len()).collect() };
        let have_host = !self.imports.is_empty() && !straight;
        let have_indirect = !f.leaf && !straight && self.table_declared.is_some() && !self.types.is_empty();
        let w = [
            if f.vars.is_empty() { 0 } else { 10 },           // 0 local.set
            if mutable_globals.is_empty() { 0 } else { 4 },    // 1 global.set
            if straight || self.no_mem { 0 } else { 7 },       // 2 store
            3,                                                 // 3 drop(expr)
            if nested { 6 } else { 0 },                        // 4 if / else
            if nested { 3 } else { 0 },                        // 5 block with breaks
            if nested { 6 } else { 0 },                        // 6 bounded loop
            if nested { 2 } else { 0 },                        // 7 br_table switch
            if callees.is_empty() { 0 } else { 5 },            // 8 call
            if have_host { 3 } else { 0 },                     // 9 host call
            if have_indirect { 2 } else { 0 },                 // 10 call_indirect
            if f.labels.is_empty() || straight { 0 } else { 3 }, // 11 br / br_if to an enclosing label
            if straight { 0 } else { 1 },                      // 12 conditional unreachable / early return
            1,                                                 // 13 nop
            if straight || self.no_mem { 0 } else { 1 },       // 14 memory.grow
            if self.rec && !f.leaf && !straight && !f.uses_rec { 2 } else { 0 }, // 15 shallow recursion
        ];
        let ed = depth.min(3) + 1;
        match g.weighted(&w) {
            0 => {
                let v = g.index(f.vars.len());
                let ty = f.vars[v];
                let e = self.expr(g, f, ty, ed);
                out.push_str(&format!("(local.set {} {})\n", v, e));
            }
            1 => {
                let gi = mutable_globals[g.index(mutable_globals.len())];
                let ty = self.globals[gi].0;
                let e = self.expr(g, f, ty, ed);
                out.push_str(&format!("(global.set $g{} {})\n", gi, e));
            }
            2 => {
                self.stats.mem_ops += 1;
                let ty = if g.bool() { Ty::I64 } else { Ty::I32 };
                let ops: &[&str] = if ty == Ty::I32 { &["store", "store8", "store16"] } else { &["store", "store8", "store16", "store32"] };
                let op = *g.pick(ops);
                let wild = g.chance(1, 24);
                if wild {
                    self.stats.traps += 1;
                }
                let a = self.addr(g, f, ed - 1, wild);
                let v = self.expr(g, f, ty, ed - 1);
                let off = if g.chance(1, 3) { format!(" offset={}", g.below(8)) } else { String::new() };
                out.push_str(&format!("({}.{}{} {} {})\n", ty.s(), op, off, a, v));
            }
            3 => {
                let ty = if g.bool() { Ty::I64 } else { Ty::I32 };
                let e = self.expr(g, f, ty, ed);
                out.push_str(&format!("(drop {})\n", e));
            }
            4 => {
                self.stats.ifs += 1;
                let c = self.expr(g, f, Ty::I32, ed - 1);
                let id = self.push_label(f);
                out.push_str(&format!("(if $L{} {} (then\n", id, c));
                let n = 1 + g.index(3);
                self.stmts(g, f, n, depth - 1, out);
                if g.bool() {
                    out.push_str(") (else\n");
                    let n = 1 + g.index(3);
                    self.stmts(g, f, n, depth - 1, out);
                }
                out.push_str("))\n");
                f.labels.pop();
            }
            5 => {
                let id = self.push_label(f);
                out.push_str(&format!("(block $L{}\n", id));
                let n = 1 + g.index(4);
                self.stmts(g, f, n, depth - 1, out);
                out.push_str(")\n");
                f.labels.pop();
            }
            6 => {
                self.stats.loops += 1;
                let c = f.vars.len() + f.counters;
                f.counters += 1;
                // bound: small constant, argument-derived, or (rarely) a few hundred iterations
                let bound = match g.weighted(&[6, 3, 1]) {
                    0 => format!("(i32.const {})", 1 + g.below(6)),
                    1 => {
                        let e = self.expr(g, f, Ty::I32, 1);
                        format!("(i32.and {} (i32.const 7))", e)
                    }
                    _ => format!("(i32.const {})", 200 + g.below(400)),
                };
                let exit = self.push_label(f);
                let top = self.push_label(f);
                out.push_str(&format!("(local.set {} {})\n(block $L{} (loop $L{}\n", c, bound, exit, top));
                out.push_str(&format!("(br_if $L{} (i32.eqz (local.get {})))\n", exit, c));
                out.push_str(&format!("(local.set {} (i32.sub (local.get {}) (i32.const 1)))\n", c, c));
                out.push_str(&format!("(br_if $L{} (i32.le_s (global.get $g0) (i32.const 0)))\n", exit));
                out.push_str("(global.set $g0 (i32.sub (global.get $g0) (i32.const 1)))\n");
                let n = 1 + g.index(3);
                self.stmts(g, f, n, depth - 1, out);
                out.push_str(&format!("(br $L{})))\n", top));
                f.labels.pop();
                f.labels.pop();
            }
            7 => {
                self.stats.br_tables += 1;
                // (block $d (block $c1 (block $c0 (br_table $c0 $c1 .. $d idx)) body0) body1) ..
                let arms = 1 + g.index(3);
                let mut ids = vec![];
                let outer = self.push_label(f);
                out.push_str(&format!("(block $L{}\n", outer));
                for _ in 0..arms {
                    let id = self.push_label(f);
                    out.push_str(&format!("(block $L{}\n", id));
                    ids.push(id);
                }
                let mut targets = String::new();
                let n_targets = 1 + g.index(6);
                for _ in 0..n_targets {
                    // any enclosing label, including outer loops and blocks
                    let l = f.labels[g.index(f.labels.len())];
                    targets.push_str(&format!(" $L{}", l.id));
                }
                let idx = self.expr(g, f, Ty::I32, 2);
                out.push_str(&format!("(br_table{} $L{} {})\n", targets, outer, idx));
                for _ in 0..arms {
                    out.push_str(")\n");
                    f.labels.pop();
                    let n = g.index(3);
                    self.stmts(g, f, n, depth - 1, out);
                    if g.bool() {
                        out.push_str(&format!("(br $L{})\n", outer));
                    }
                }
                out.push_str(")\n");
                f.labels.pop();
            }
            8 => {
                let j = callees[g.index(callees.len())];
                let c = self.call(g, f, j, ed - 1);
                if self.funcs[j].sig.result.is_some() {
                    out.push_str(&format!("(drop {})\n", c));
                } else {
                    out.push_str(&format!("{}\n", c));
                }
            }
            9 => {
                let j = g.index(self.imports.len());
                let c = self.host_call(g, f, j, ed - 1);
                if self.imports[j].result.is_some() {
                    out.push_str(&format!("(drop {})\n", c));
                } else {
                    out.push_str(&format!("{}\n", c));
                }
            }
            10 => {
                let j = g.index(self.types.len());
                let c = self.call_indirect(g, f, j, ed - 1);
                if self.types[j].result.is_some() {
                    out.push_str(&format!("(drop {})\n", c));
                } else {
                    out.push_str(&format!("{}\n", c));
                }
            }
            11 => {
                let l = f.labels[g.index(f.labels.len())];
                if g.chance(1, 4) {
                    out.push_str(&format!("(br $L{})\n", l.id));
                } else {
                    let c = self.expr(g, f, Ty::I32, ed - 1);
                    out.push_str(&format!("(br_if $L{} {})\n", l.id, c));
                }
            }
            12 => {
                let c = self.expr(g, f, Ty::I32, ed - 1);
                if g.bool() {
                    self.stats.traps += 1;
                    // taken only for one value in eight of the condition
                    out.push_str(&format!("(if (i32.eq (i32.and {} (i32.const 7)) (i32.const 5)) (then (unreachable)))\n", c));
                } else {
                    let r = match f.result {
                        Some(t) => self.expr(g, f, t, 1),
                        None => String::new(),
                    };
                    out.push_str(&format!("(if {} (then (return {})))\n", c, r));
                }
            }
            13 => out.push_str("(nop)\n"),
            14 => {
                self.stats.grows += 1;
                let e = self.expr(g, f, Ty::I32, 1);
                out.push_str(&format!("(drop (memory.grow (i32.and {} (i32.const 1))))\n", e));
            }
            _ => {
                // shallow, constant-depth recursion (never exhausts the stack)
                f.uses_rec = true;
                self.stats.calls += 1;
                out.push_str(&format!("(drop (call $rec (i32.const {})))\n", g.below(12)));
            }
        }
    }

    fn push_label(&mut self, f: &mut FCtx) -> usize {
        let id = f.next_label;
        f.next_label += 1;
        f.labels.push(Label { id });
        id
    }

    /// Body of function `idx`: (locals declarations, instructions).
    fn body(&mut self, g: &mut Gen, idx: usize, extra_locals: usize, float_local: bool, big_br_table: Option<u32>, prefix: &str) -> String {
        let decl = &self.funcs[idx];
        let sig = decl.sig.clone();
        let (leaf, straight) = (decl.leaf, decl.straight);
        let n_locals = g.index(4);
        let mut vars = sig.params.clone();
        for _ in 0..n_locals {
            vars.push(if g.bool() { Ty::I64 } else { Ty::I32 });
        }
        let mut f = FCtx {
            idx,
            vars,
            n_params: sig.params.len(),
            counters: 0,
            labels: vec![],
            next_label: 0,
            result: sig.result,
            budget: if straight { 25 } else { 40 + g.index(60) as i32 },
            straight,
            leaf,
            uses_rec: false,
        };
        let mut code = String::new();
        let n = 1 + g.index(6);
        self.stmts(g, &mut f, n, if straight { 0 } else { 3 }, &mut code);
        if let Some(n) = big_br_table {
            // a br_table with n targets (excluding the default), all to one block
            code.push_str("(block $big (br_table");
            for _ in 0..n {
                code.push_str(" $big");
            }
            code.push_str(" $big (i32.const 0)))\n");
        }
        if let Some(t) = sig.result {
            f.budget = f.budget.max(8);
            let e = self.expr(g, &mut f, t, 3);
            code.push_str(&e);
            code.push('\n');
        }
        let mut s = String::new();
        // general locals, loop counters, then padding locals (toggles)
        let general: Vec<Ty> = f.vars[f.n_params..].to_vec();
        if !general.is_empty() || f.counters > 0 || extra_locals > 0 {
            s.push_str("(local");
            for t in &general {
                s.push(' ');
                s.push_str(t.s());
            }
            for _ in 0..f.counters {
                s.push_str(" i32");
            }
            let used = general.len() + f.counters;
            for _ in used..extra_locals.max(used) {
                s.push_str(" i64");
            }
            s.push_str(")\n");
        }
        if float_local {
            s.push_str("(local f64)\n");
        }
        s.push_str(prefix);
        s.push_str(&code);
        s
    }
}

fn gen_sig(g: &mut Gen, max_params: usize) -> Sig {
    let n = g.index(max_params + 1);
    let params = (0..n).map(|_| if g.bool() { Ty::I64 } else { Ty::I32 }).collect();
    let result = match g.weighted(&[3, 3, 2]) {
        0 => Some(Ty::I32),
        1 => Some(Ty::I64),
        _ => None,
    };
    Sig { params, result }
}

fn escape_bytes(b: &[u8]) -> String {
    let mut s = String::new();
    for x in b {
        s.push_str(&format!("\\{:02x}", x));
    }
    s
}

/// Generate one module.
pub fn generate(g: &mut Gen, opts: &Opts) -> Module {
    let toggle = opts.toggle;
    let mut m = ModCtx {
        opts: opts.clone(),
        funcs: vec![],
        imports: vec![],
        globals: vec![(Ty::I32, true)],
        table: vec![],
        table_declared: None,
        types: vec![],
        rec: false,
        mem_pages: 1,
        no_mem: toggle == Toggle::NoMemory,
        stats: Stats::default(),
    };

    // ---- shape ------------------------------------------------------------------------------
    let n_funcs = 1 + g.index(opts.max_funcs.max(1));
    let n_leaves = if n_funcs >= 2 { 1 + g.index((n_funcs / 2).max(1)) } else { 0 };
    for i in 0..n_funcs {
        let leaf = i >= n_funcs - n_leaves;
        let straight = g.chance(1, 4);
        m.funcs.push(FuncDecl { sig: gen_sig(g, 4), leaf: leaf || straight, straight });
    }
    m.rec = opts.recursion && g.chance(1, 3);
    // host imports available to this VM version
    let n_imports = match g.weighted(&[3, 3, 2]) {
        0 => 0,
        1 => 1 + g.index(2),
        _ => 2 + g.index(4),
    };
    let allowed: Vec<&'static HostFn> = HOST_FNS.iter().filter(|h| h.min_version <= opts.vm_version).collect();
    for _ in 0..n_imports {
        // the head of the list (cheap, side-effect free functions) is preferred
        let h = if g.chance(2, 3) { allowed[g.index(9.min(allowed.len()))] } else { allowed[g.index(allowed.len())] };
        if !m.imports.iter().any(|x| x.name == h.name) {
            m.imports.push(h);
        }
    }
    let n_globals = g.index(5);
    for _ in 0..n_globals {
        m.globals.push((if g.bool() { Ty::I64 } else { Ty::I32 }, g.chance(3, 4)));
    }
    m.mem_pages = 1 + g.index(4) as u32;
    let mut mem_max: Option<u32> = if g.bool() { Some(m.mem_pages + g.below(8) as u32) } else { None };
    // table of leaf functions
    if n_leaves > 0 && g.chance(2, 3) {
        let size = 1 + g.index(6);
        for _ in 0..size {
            if g.chance(1, 6) {
                m.table.push(None);
            } else {
                m.table.push(Some(n_funcs - n_leaves + g.index(n_leaves)));
            }
        }
        // declared size ≥ initialised part (the rest is null)
        m.table_declared = Some(m.table.len() as u32 + g.below(3) as u32);
        // call_indirect types: signatures of table functions plus sometimes a foreign one
        for s in m.table.clone().into_iter().flatten() {
            let sig = m.funcs[s].sig.clone();
            if !m.types.contains(&sig) {
                m.types.push(sig);
            }
        }
        if g.chance(1, 4) {
            let sig = gen_sig(g, 3);
            if !m.types.contains(&sig) {
                m.types.push(sig);
            }
        }
    }

    // ---- toggles that change the shape ------------------------------------------------------
    let mut extra_locals_in: Option<(usize, usize)> = None; // (function, total locals)
    let mut big_br: Option<(usize, u32)> = None;
    let mut pad_funcs = 0usize;
    let victim = g.index(n_funcs);
    match toggle {
        Toggle::TooManyParams | Toggle::EdgeParams => {
            let n = if toggle == Toggle::TooManyParams { LIM_PARAMS + 1 } else { LIM_PARAMS } as usize;
            let sig = &mut m.funcs[victim].sig;
            while sig.params.len() < n {
                sig.params.push(if sig.params.len() % 3 == 0 { Ty::I64 } else { Ty::I32 });
            }
        }
        Toggle::TooManyLocals => extra_locals_in = Some((victim, LIM_LOCALS as usize + 1)),
        Toggle::EdgeLocals => extra_locals_in = Some((victim, LIM_LOCALS as usize)),
        Toggle::TooManyGlobals | Toggle::EdgeGlobals => {
            let n = if toggle == Toggle::TooManyGlobals { LIM_GLOBALS + 1 } else { LIM_GLOBALS } as usize;
            while m.globals.len() < n {
                let k = m.globals.len();
                m.globals.push((if k % 2 == 0 { Ty::I64 } else { Ty::I32 }, k % 3 != 0));
            }
        }
        Toggle::BigBrTable => big_br = Some((victim, LIM_BR_TABLE + 1)),
        Toggle::EdgeBrTable => big_br = Some((victim, LIM_BR_TABLE)),
        Toggle::BigTable => m.table_declared = Some(LIM_TABLE + 1),
        Toggle::EdgeTable => m.table_declared = Some(LIM_TABLE),
        Toggle::TooManyFunctions => pad_funcs = LIM_FUNCTIONS as usize + 1 - (n_funcs + 1 + m.rec as usize),
        Toggle::EdgeFunctions => pad_funcs = LIM_FUNCTIONS as usize - (n_funcs + 1 + m.rec as usize),
        Toggle::MemInitialTooBig => {
            m.mem_pages = LIM_MEMORY_PAGES + 1;
            mem_max = None;
        }
        Toggle::MemMaxTooBig => mem_max = Some(LIM_MEMORY_PAGES + 1 + g.below(3) as u32),
        Toggle::EdgeMemory => {
            if g.bool() {
                m.mem_pages = LIM_MEMORY_PAGES;
                mem_max = if g.bool() { Some(LIM_MEMORY_PAGES) } else { None };
            } else {
                mem_max = Some(LIM_MEMORY_PAGES);
            }
        }
        _ => {}
    }

    // ---- text ---------------------------------------------------------------------------------
    let mut w = String::from("(module\n");
    for (i, t) in m.types.iter().enumerate() {
        w.push_str(&format!("(type $t{} (func{}))\n", i, t.render()));
    }
    if toggle == Toggle::FloatImportSig {
        w.push_str("(type $tf (func (param f32)))\n");
    }
    // imports
    for (i, h) in m.imports.iter().enumerate() {
        let sig = Sig { params: h.params.to_vec(), result: h.result };
        w.push_str(&format!("(import \"env\" \"{}\" (func $h{}{}))\n", h.name, i, sig.render()));
    }
    match toggle {
        Toggle::ForeignImportModule => {
            let h = &HOST_FNS[g.index(HOST_FNS.len())];
            let sig = Sig { params: h.params.to_vec(), result: h.result };
            let module = *g.pick(&["host", "ENV", "env2", "", "wasi_snapshot_preview1"]);
            w.push_str(&format!("(import \"{}\" \"{}\" (func $hx{}))\n", module, h.name, sig.render()));
        }
        Toggle::UnknownEnvImport => {
            let name = *g.pick(&["nope", "sys_log2", "Buffer_consume", "test_host_read_memory", "memory", ""]);
            let sig = gen_sig(g, 3);
            w.push_str(&format!("(import \"env\" \"{}\" (func $hx{}))\n", name, sig.render()));
        }
        Toggle::GasImport => w.push_str("(import \"env\" \"gas\" (func $hx (param i64)))\n"),
        Toggle::NonFuncEnvImport => {
            let h = &HOST_FNS[g.index(HOST_FNS.len())];
            match g.index(2) {
                0 => w.push_str(&format!("(import \"env\" \"{}\" (global $hx i32))\n", h.name)),
                _ => w.push_str(&format!("(import \"env\" \"{}\" (global $hx (mut i64)))\n", h.name)),
            }
        }
        Toggle::WrongImportSig => {
            let candidates: Vec<&HostFn> = HOST_FNS.iter().filter(|h| h.min_version <= opts.vm_version && !m.imports.iter().any(|x| x.name == h.name)).collect();
            let h = candidates[g.index(candidates.len())];
            let mut sig = Sig { params: h.params.to_vec(), result: h.result };
            match g.index(4) {
                0 => sig.params.push(Ty::I32),
                1 if !sig.params.is_empty() => {
                    sig.params.pop();
                }
                2 if !sig.params.is_empty() => {
                    let k = g.index(sig.params.len());
                    sig.params[k] = Ty::I64;
                }
                _ => {
                    sig.result = match sig.result {
                        None => Some(Ty::I64),
                        Some(Ty::I64) => Some(Ty::I32),
                        _ => None,
                    }
                }
            }
            w.push_str(&format!("(import \"env\" \"{}\" (func $hx{}))\n", h.name, sig.render()));
        }
        Toggle::FutureImport => {
            // only meaningful below the latest version; the caller picks vm_version < 2
            let candidates: Vec<&HostFn> = HOST_FNS.iter().filter(|h| h.min_version > opts.vm_version).collect();
            if !candidates.is_empty() {
                let h = candidates[g.index(candidates.len())];
                let sig = Sig { params: h.params.to_vec(), result: h.result };
                w.push_str(&format!("(import \"env\" \"{}\" (func $hx{}))\n", h.name, sig.render()));
            }
        }
        _ => {}
    }
    // memory
    let render_mem = |pages: u32, max: Option<u32>| match max {
        Some(mx) => format!("(memory $mem {} {})\n", pages, mx),
        None => format!("(memory $mem {})\n", pages),
    };
    let mem_marker = "(;MEMORY;)\n";
    if toggle != Toggle::NoMemory {
        w.push_str(mem_marker);
    }
    if toggle == Toggle::SecondMemory {
        w.push_str("(memory $mem2 1)\n");
    }
    match toggle {
        Toggle::NoMemory | Toggle::MemoryNotExported => {}
        Toggle::MemoryExportRenamed => {
            let name = *g.pick(&["mem", "Memory", "memory0", "memory_"]);
            w.push_str(&format!("(export \"{}\" (memory $mem))\n", name));
        }
        _ => w.push_str("(export \"memory\" (memory $mem))\n"),
    }
    // table
    if let Some(n) = m.table_declared {
        if g.bool() {
            w.push_str(&format!("(table $tab {} funcref)\n", n));
        } else {
            w.push_str(&format!("(table $tab {} {} funcref)\n", n, n + g.below(3) as u32));
        }
        if !m.table.is_empty() {
            // one or two element segments; nulls are gaps between segments
            let mut off = 0usize;
            while off < m.table.len() {
                if m.table[off].is_none() {
                    off += 1;
                    continue;
                }
                let mut end = off;
                while end < m.table.len() && m.table[end].is_some() {
                    end += 1;
                }
                w.push_str(&format!("(elem (i32.const {})", off));
                for s in &m.table[off..end] {
                    w.push_str(&format!(" $f{}", s.unwrap()));
                }
                w.push_str(")\n");
                off = end;
            }
        }
    }
    // globals
    for (i, (t, mutable)) in m.globals.iter().enumerate() {
        let init = if i == 0 { "(i32.const 2000)".to_string() } else { const_of(g, *t, 0) };
        if *mutable {
            w.push_str(&format!("(global $g{} (mut {}) {})\n", i, t.s(), init));
        } else {
            w.push_str(&format!("(global $g{} {} {})\n", i, t.s(), init));
        }
    }
    if toggle == Toggle::FloatGlobal {
        if g.bool() {
            w.push_str("(global $gf (mut f32) (f32.const 1.5))\n");
        } else {
            w.push_str("(global $gf f64 (f64.const 0))\n");
        }
    }
    let mut exported_globals = vec![];
    if opts.export_all {
        for (i, (t, _)) in m.globals.iter().enumerate() {
            w.push_str(&format!("(export \"g{}\" (global $g{}))\n", i, i));
            exported_globals.push((format!("g{}", i), *t));
        }
    }
    // data segments (inside the initial memory)
    if toggle != Toggle::NoMemory {
        let n = g.index(3);
        for _ in 0..n {
            let len = 1 + g.index(24);
            let limit = (m.mem_pages.min(LIM_MEMORY_PAGES) as usize) * 65536 - len;
            let off = match g.weighted(&[4, 2, 1]) {
                0 => g.index(4096),
                1 => g.index(limit + 1),
                _ => limit,
            };
            let bytes = g.bytes(len);
            w.push_str(&format!("(data (i32.const {}) \"{}\")\n", off, escape_bytes(&bytes)));
        }
    }

    // functions
    for i in 0..n_funcs {
        let sig = m.funcs[i].sig.clone();
        let extra = match extra_locals_in {
            Some((v, n)) if v == i => n,
            _ => 0,
        };
        let br = match big_br {
            Some((v, n)) if v == i => Some(n),
            _ => None,
        };
        let float_local = toggle == Toggle::FloatLocal && i == victim;
        let mut sig_text = sig.render();
        let mut prefix = String::new();
        if i == victim {
            match toggle {
                Toggle::FloatParam => sig_text = format!(" (param {}){}", if g.bool() { "f32" } else { "f64" }, sig_text),
                Toggle::FloatConst => prefix.push_str(if g.bool() { "(drop (f32.const 1))\n" } else { "(drop (f64.const -0))\n" }),
                Toggle::FloatOp => prefix.push_str("(drop (f64.add (f64.const 1) (f64.const 2)))\n"),
                Toggle::FloatMem => prefix.push_str(if g.bool() { "(drop (f32.load (i32.const 0)))\n" } else { "(f64.store (i32.const 8) (f64.const 1))\n" }),
                Toggle::FloatConv => prefix.push_str(if g.bool() { "(drop (f32.reinterpret_i32 (i32.const 1)))\n" } else { "(drop (i64.trunc_f64_s (f64.convert_i32_u (i32.const 3))))\n" }),
                _ => {}
            }
        }
        let body = m.body(g, i, extra, float_local, br, &prefix);
        w.push_str(&format!("(func $f{}{}\n{})\n", i, sig_text, body));
    }
    if toggle == Toggle::FloatResult {
        w.push_str(if g.bool() { "(func $ff (result f32) (f32.const 0))\n" } else { "(func $ff (result f64) (f64.const 0))\n" });
    }
    if m.rec {
        w.push_str(
            "(func $rec (param i32) (result i32)\n(if (result i32) (i32.eqz (local.get 0)) (then (i32.const 0))\n(else (i32.add (i32.const 1) (call $rec (i32.sub (local.get 0) (i32.const 1)))))))\n",
        );
    }
    if toggle == Toggle::Start {
        w.push_str("(func $st (global.set $g0 (i32.const 1999)))\n(start $st)\n");
    }
    for k in 0..pad_funcs {
        // tiny padding functions of a few shapes
        match k % 3 {
            0 => w.push_str("(func)\n"),
            1 => w.push_str("(func (param i32) (result i32) (local.get 0))\n"),
            _ => w.push_str("(func (result i64) (i64.const 7))\n"),
        }
    }

    // the blueprint entry point Test_f(i64) -> i64: runs function 0, stores SBOR unit at 0, returns (0,3)
    let mut exports = vec![];
    {
        let sig0 = m.funcs[0].sig.clone();
        let mut call = String::from("(call $f0");
        for (k, p) in sig0.params.iter().enumerate() {
            match p {
                Ty::I64 => call.push_str(&format!(" (i64.add (local.get 0) (i64.const {}))", k)),
                _ => call.push_str(&format!(" (i32.wrap_i64 (i64.shr_u (local.get 0) (i64.const {})))", (k * 8) % 64)),
            }
        }
        call.push(')');
        let call = if sig0.result.is_some() { format!("(drop {})", call) } else { call };
        let rec_call = if m.rec { "(drop (call $rec (i32.and (i32.wrap_i64 (local.get 0)) (i32.const 2047))))\n" } else { "" };
        let unit = if m.no_mem { "" } else { "(i32.store8 (i32.const 0) (i32.const 92))\n(i32.store8 (i32.const 1) (i32.const 33))\n(i32.store8 (i32.const 2) (i32.const 0))\n" };
        w.push_str(&format!("(func $entry (param i64) (result i64)\n{}\n{}{}(i64.const 3))\n(export \"Test_f\" (func $entry))\n", call, rec_call, unit));
        exports.push(Export { name: "Test_f".into(), sig: Sig { params: vec![Ty::I64], result: Some(Ty::I64) }, straight: false, recursive: m.rec });
    }
    if opts.export_all {
        for i in 0..n_funcs {
            if i == 0 || g.chance(2, 3) {
                w.push_str(&format!("(export \"e{}\" (func $f{}))\n", i, i));
                exports.push(Export { name: format!("e{}", i), sig: m.funcs[i].sig.clone(), straight: m.funcs[i].straight, recursive: false });
            }
        }
    }
    w.push_str(")\n");

    let wat = w.replace(mem_marker, &render_mem(m.mem_pages, mem_max));
    let wat_ref = w.replace(mem_marker, &render_mem(m.mem_pages, Some(mem_max.unwrap_or(LIM_MEMORY_PAGES))));
    m.stats.funcs = n_funcs;
    Module {
        wat,
        wat_ref,
        toggle,
        exports,
        globals: exported_globals,
        imports: m.imports.iter().map(|h| h.name).collect(),
        stats: m.stats,
        mem_pages: m.mem_pages,
        mem_max,
    }
}
