pub fn checks() -> Vec<vf_core::Check> {
    vec![]
}
