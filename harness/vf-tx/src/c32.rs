//! C32 Transaction identifiers commit to the whole transaction.

use crate::payload::*;
use crate::refhash;
use crate::txgen::*;
use radix_common::prelude::*;
use radix_transactions::manifest::*;
use radix_transactions::prelude::*;
use vf_core::{catch, ensure, Check, Gen, Outcome, Part};

fn settings() -> PreparationSettings {
    PreparationSettings::latest()
}

fn hx(h: &Hash) -> String {
    hex::encode(&h.0[..8])
}

fn hxs(v: &[Hash]) -> String {
    v.iter().map(hx).collect::<Vec<_>>().join(",")
}

fn check_expected(kind: Kind, got: &[Hash], expected: &[Option<Hash>], raw: &[u8]) -> Result<(), vf_core::Failure> {
    if got.len() != expected.len() {
        return Err(vf_core::Failure {
            signature: format!("prepare({}): number of reported hashes differs from the model", kind.name()),
            message: format!("prepare reported {} hashes, the model has {}; payload {}", got.len(), expected.len(), hex::encode(raw)),
        });
    }
    for (i, (g, e)) in got.iter().zip(expected.iter()).enumerate() {
        if let Some(e) = e {
            if g != e {
                return Err(vf_core::Failure {
                    signature: format!("prepare({}): hash differs from the documented hashing scheme", kind.name()),
                    message: format!("hash #{} (0 = top-level identifier): prepare gives {}, reference scheme gives {}; payload {}", i, g, e, hex::encode(raw)),
                });
            }
        }
    }
    Ok(())
}

// ---- part 1: encode / decode / prepare agree ------------------------------------------------

fn roundtrip(g: &mut Gen) -> Outcome {
    let o = Opts::default();
    let c = gen_case(g, &o);
    g.label(c.kind.name());
    if c.has_subintents {
        g.label("has subintents");
        g.nontrivial();
    }
    g.sample(|| format!("{} ({} bytes): {}", c.kind.name(), c.raw.len(), c.render));
    // decode / re-encode identity
    match decode_reencode(c.kind, &c.raw) {
        Ok(again) => ensure!(
            again == c.raw,
            format!("{}: from_raw(raw).to_raw() != raw", c.kind.name()),
            "payload {} re-encodes to {}",
            hex::encode(&c.raw),
            hex::encode(&again)
        ),
        Err(e) => return Outcome::fail(format!("{}: generated payload does not decode", c.kind.name()), format!("{}: payload {}", e, hex::encode(&c.raw))),
    }
    // AnyTransaction twin: the payload is also a valid AnyTransaction and re-encodes identically
    match catch(|| manifest_decode::<AnyTransaction>(&c.raw)) {
        Ok(Ok(any)) => {
            let again = manifest_encode(&any).expect("encodable");
            ensure!(
                again == c.raw,
                format!("{}: AnyTransaction decode/encode is not the identity", c.kind.name()),
                "payload {} re-encodes to {}",
                hex::encode(&c.raw),
                hex::encode(&again)
            );
        }
        Ok(Err(e)) => return Outcome::fail(format!("{}: payload is not an AnyTransaction", c.kind.name()), format!("{:?}: payload {}", e, hex::encode(&c.raw))),
        Err(p) => return Outcome::fail("AnyTransaction decode panics", format!("{}: payload {}", p, hex::encode(&c.raw))),
    }
    // prepare: succeeds, hashes follow the documented scheme
    let hashes = match prepare_hashes(c.kind, &c.raw, &settings()) {
        Ok(h) => h,
        Err(Ok(e)) => return Outcome::fail(format!("{}: prepare rejects a well-formed payload", c.kind.name()), format!("{:?}: payload {}", e, hex::encode(&c.raw))),
        Err(Err(p)) => return Outcome::fail(format!("{}: prepare panics", c.kind.name()), format!("{}: payload {}", p, hex::encode(&c.raw))),
    };
    if let Err(f) = check_expected(c.kind, &hashes, &c.expected, &c.raw) {
        return Outcome::Fail(f);
    }
    // a second prepare gives the same hashes (function of content)
    match prepare_hashes(c.kind, &c.raw, &settings()) {
        Ok(h2) => ensure!(h2 == hashes, format!("{}: prepare is not deterministic", c.kind.name()), "{} vs {}", hxs(&hashes), hxs(&h2)),
        _ => return Outcome::fail(format!("{}: prepare is not deterministic", c.kind.name()), "second prepare failed".to_string()),
    }
    Outcome::Pass
}

/// The repository's V1 builder and the harness's direct assembly produce the same transaction
/// (so: the hashes the builder signs, which come from `prepare`, are the reference hashes).
fn builder_twin(g: &mut Gen) -> Outcome {
    let o = Opts::default();
    let b = gen_v1(g, &o);
    g.label("builder twin v1");
    g.sample(|| format!("builder twin of {}", case_v1(Kind::NotarizedV1, &b).render));
    let intent = b.tx.signed_intent.intent.clone();
    let manifest = TransactionManifestV1 { instructions: intent.instructions.0.clone(), blobs: intent.blobs.clone().into(), object_names: Default::default() };
    // the builder stores blobs in a map keyed by hash: equal blobs collapse; only compare when the
    // generated blobs are pairwise distinct
    if manifest.blobs.len() != intent.blobs.blobs.len() {
        return Outcome::Discard;
    }
    let built = catch(|| {
        let mut tb = TransactionBuilder::new().header(intent.header.clone()).manifest(manifest).message(intent.message.clone());
        for k in &b.signers {
            tb = if k.ed { tb.sign(&keys().ed[k.idx as usize].0) } else { tb.sign(&keys().secp[k.idx as usize].0) };
        }
        tb = if b.notary.ed { tb.notarize(&keys().ed[b.notary.idx as usize].0) } else { tb.notarize(&keys().secp[b.notary.idx as usize].0) };
        tb.build()
    });
    match built {
        Ok(t) => {
            ensure!(
                t == b.tx,
                "TransactionBuilder (v1) and direct assembly over reference hashes disagree",
                "builder: {}\ndirect:  {}",
                hex::encode(t.to_raw().unwrap().as_slice()),
                hex::encode(b.tx.to_raw().unwrap().as_slice())
            );
            if !b.signers.is_empty() {
                g.nontrivial();
            }
            Outcome::Pass
        }
        Err(p) => Outcome::fail("TransactionBuilder (v1) panics on a well-formed transaction", p),
    }
}

// ---- part 2: single-field perturbation ------------------------------------------------------

#[derive(Clone, Copy, Debug, PartialEq, Eq)]
enum Scope {
    /// Inside the root intent (header, core): every enclosing hash changes, subintent hashes do not.
    RootIntent,
    /// Inside subintent i.
    Sub(usize),
    /// The order / membership of the flattened subintent list.
    SubList,
    /// Signatures of the root intent / of a subintent: only signed-intent and notarized hashes change.
    IntentSignatures,
    /// The notary signature: only the notarized hash changes.
    NotarySignature,
}

fn flip(g: &mut Gen, bytes: &mut [u8]) {
    if bytes.is_empty() {
        return;
    }
    let i = g.index(bytes.len());
    bytes[i] ^= 1 << g.below(8);
}

fn perturb_blobs(g: &mut Gen, b: &mut BlobsV1) -> &'static str {
    let n = b.blobs.len();
    match g.below(4) {
        0 if n > 0 => {
            let i = g.index(n);
            if b.blobs[i].0.is_empty() {
                b.blobs[i].0.push(g.u8());
            } else {
                flip(g, &mut b.blobs[i].0);
            }
            "blob byte"
        }
        1 if n > 0 => {
            b.blobs.remove(g.index(n));
            "blob removed"
        }
        2 if n > 1 => {
            b.blobs.swap(0, n - 1);
            "blobs reordered"
        }
        _ => {
            let i = g.index(n + 1);
            b.blobs.insert(i, BlobV1(g.blob(6)));
            "blob added"
        }
    }
}

fn perturb_plaintext(g: &mut Gen, p: &mut PlaintextMessageV1) -> &'static str {
    match g.below(3) {
        0 => {
            p.mime_type.push('x');
            "message mime type"
        }
        1 => {
            match &mut p.message {
                MessageContentsV1::String(s) => s.push('!'),
                MessageContentsV1::Bytes(b) => {
                    if b.is_empty() {
                        b.push(1)
                    } else {
                        flip(g, b)
                    }
                }
            }
            "message content"
        }
        _ => {
            p.message = match &p.message {
                MessageContentsV1::String(s) => MessageContentsV1::Bytes(s.as_bytes().to_vec()),
                MessageContentsV1::Bytes(b) => MessageContentsV1::String(hex::encode(b)),
            };
            "message content kind"
        }
    }
}

fn perturb_message_v1(g: &mut Gen, m: &mut MessageV1) -> &'static str {
    match m {
        MessageV1::None => {
            *m = MessageV1::Plaintext(PlaintextMessageV1::text("x"));
            "message none -> plaintext"
        }
        MessageV1::Plaintext(p) => {
            if g.chance(1, 5) {
                *m = MessageV1::None;
                "message removed"
            } else {
                perturb_plaintext(g, p)
            }
        }
        MessageV1::Encrypted(e) => match g.below(3) {
            0 => {
                e.encrypted.0.push(g.u8());
                "encrypted payload"
            }
            1 => {
                for (_, d) in e.decryptors_by_curve.iter_mut() {
                    match d {
                        DecryptorsByCurve::Ed25519 { dh_ephemeral_public_key, .. } => dh_ephemeral_public_key.0[3] ^= 0x10,
                        DecryptorsByCurve::Secp256k1 { dh_ephemeral_public_key, .. } => dh_ephemeral_public_key.0[3] ^= 0x10,
                    }
                    break;
                }
                "ephemeral key"
            }
            _ => {
                for (_, d) in e.decryptors_by_curve.iter_mut() {
                    let map = match d {
                        DecryptorsByCurve::Ed25519 { decryptors, .. } => decryptors,
                        DecryptorsByCurve::Secp256k1 { decryptors, .. } => decryptors,
                    };
                    if let Some((_, k)) = map.iter_mut().next() {
                        k.0[5] ^= 0x01;
                    }
                    break;
                }
                "wrapped key"
            }
        },
    }
}

fn perturb_message_v2(g: &mut Gen, m: &mut MessageV2) -> &'static str {
    match m {
        MessageV2::None => {
            *m = MessageV2::Plaintext(PlaintextMessageV1::text("x"));
            "message none -> plaintext"
        }
        MessageV2::Plaintext(p) => {
            if g.chance(1, 5) {
                *m = MessageV2::None;
                "message removed"
            } else {
                perturb_plaintext(g, p)
            }
        }
        MessageV2::Encrypted(e) => match g.below(3) {
            0 => {
                e.encrypted.0.push(g.u8());
                "encrypted payload"
            }
            1 => {
                for (_, d) in e.decryptors_by_curve.iter_mut() {
                    match d {
                        DecryptorsByCurveV2::Ed25519 { dh_ephemeral_public_key, .. } => dh_ephemeral_public_key.0[3] ^= 0x10,
                        DecryptorsByCurveV2::Secp256k1 { dh_ephemeral_public_key, .. } => dh_ephemeral_public_key.0[3] ^= 0x10,
                    }
                    break;
                }
                "ephemeral key"
            }
            _ => {
                for (_, d) in e.decryptors_by_curve.iter_mut() {
                    let map = match d {
                        DecryptorsByCurveV2::Ed25519 { decryptors, .. } => decryptors,
                        DecryptorsByCurveV2::Secp256k1 { decryptors, .. } => decryptors,
                    };
                    if let Some((_, k)) = map.iter_mut().next() {
                        k.0[5] ^= 0x01;
                    }
                    break;
                }
                "wrapped key"
            }
        },
    }
}

fn perturb_instructions_v1(g: &mut Gen, ins: &mut Vec<InstructionV1>) -> &'static str {
    let n = ins.len();
    match g.below(4) {
        0 if n > 0 => {
            for i in ins.iter_mut() {
                if let InstructionV1::CallMethod(c) = i {
                    if g.bool() {
                        c.method_name.push('_');
                        return "instruction method name";
                    } else {
                        c.args = to_manifest_value(&(g.u8(), "perturbed".to_string())).unwrap();
                        return "instruction argument";
                    }
                }
            }
            ins.remove(g.index(n));
            "instruction removed"
        }
        1 if n > 0 => {
            ins.remove(g.index(n));
            "instruction removed"
        }
        2 if n > 1 && ins[0] != ins[n - 1] => {
            ins.swap(0, n - 1);
            "instructions reordered"
        }
        _ => {
            ins.insert(g.index(n + 1), InstructionV1::DropAuthZoneProofs(DropAuthZoneProofs));
            "instruction added"
        }
    }
}

fn perturb_instructions_v2(g: &mut Gen, ins: &mut Vec<InstructionV2>) -> &'static str {
    let n = ins.len();
    match g.below(4) {
        0 if n > 0 => {
            for i in ins.iter_mut() {
                if let InstructionV2::CallMethod(c) = i {
                    if g.bool() {
                        c.method_name.push('_');
                        return "instruction method name";
                    } else {
                        c.args = to_manifest_value(&(g.u8(), "perturbed".to_string())).unwrap();
                        return "instruction argument";
                    }
                }
            }
            ins.remove(g.index(n));
            "instruction removed"
        }
        1 if n > 0 => {
            ins.remove(g.index(n));
            "instruction removed"
        }
        2 if n > 1 && ins[0] != ins[n - 1] => {
            ins.swap(0, n - 1);
            "instructions reordered"
        }
        _ => {
            ins.insert(g.index(n + 1), InstructionV2::DropAuthZoneProofs(DropAuthZoneProofs));
            "instruction added"
        }
    }
}

fn perturb_public_key(g: &mut Gen, k: &mut PublicKey) {
    if g.chance(1, 4) {
        *k = match k {
            PublicKey::Secp256k1(_) => PublicKey::Ed25519(keys().ed[0].1),
            PublicKey::Ed25519(_) => PublicKey::Secp256k1(keys().secp[0].1),
        };
    } else {
        match k {
            PublicKey::Secp256k1(p) => flip(g, &mut p.0),
            PublicKey::Ed25519(p) => flip(g, &mut p.0),
        }
    }
}

/// Returns (class, nested?) - nested = blob / message / child list.
fn perturb_core(g: &mut Gen, c: &mut IntentCoreV2) -> (&'static str, bool) {
    match g.weighted(&[6, 3, 3, 3, 3]) {
        0 => {
            let h = &mut c.header;
            (
                match g.below(6) {
                    0 => {
                        h.network_id ^= 1 << g.below(8);
                        "header network id"
                    }
                    1 => {
                        h.start_epoch_inclusive = Epoch::of(h.start_epoch_inclusive.number().wrapping_add(1));
                        "header start epoch"
                    }
                    2 => {
                        h.end_epoch_exclusive = Epoch::of(h.end_epoch_exclusive.number().wrapping_add(1));
                        "header end epoch"
                    }
                    3 => {
                        h.min_proposer_timestamp_inclusive = match h.min_proposer_timestamp_inclusive {
                            None => Some(Instant::new(0)),
                            Some(t) if g.bool() => Some(Instant::new(t.seconds_since_unix_epoch.wrapping_add(1))),
                            Some(_) => None,
                        };
                        "header min timestamp"
                    }
                    4 => {
                        h.max_proposer_timestamp_exclusive = match h.max_proposer_timestamp_exclusive {
                            None => Some(Instant::new(0)),
                            Some(t) if g.bool() => Some(Instant::new(t.seconds_since_unix_epoch.wrapping_sub(1))),
                            Some(_) => None,
                        };
                        "header max timestamp"
                    }
                    _ => {
                        h.intent_discriminator ^= 1 << g.below(64);
                        "header intent discriminator"
                    }
                },
                false,
            )
        }
        1 => (perturb_blobs(g, &mut c.blobs), true),
        2 => (perturb_message_v2(g, &mut c.message), true),
        3 => {
            let mut kids: Vec<ChildSubintentSpecifier> = c.children.children.iter().cloned().collect();
            let n = kids.len();
            let what = match g.below(4) {
                0 if n > 0 => {
                    let i = g.index(n);
                    let mut h = kids[i].hash.0 .0;
                    flip(g, &mut h);
                    kids[i] = SubintentHash::from_hash(Hash(h)).into();
                    "child hash"
                }
                1 if n > 0 => {
                    kids.remove(g.index(n));
                    "child removed"
                }
                2 if n > 1 => {
                    kids.swap(0, n - 1);
                    "children reordered"
                }
                _ => {
                    let mut h = g.array::<32>();
                    h[0] |= 1;
                    kids.insert(g.index(n + 1), SubintentHash::from_hash(Hash(h)).into());
                    "child added"
                }
            };
            let set: IndexSet<ChildSubintentSpecifier> = kids.iter().cloned().collect();
            if set.len() == kids.len() {
                c.children.children = set;
            } // else: would create a duplicate (not encodable as a set): leave unchanged -> discarded by caller
            (what, true)
        }
        _ => (perturb_instructions_v2(g, &mut c.instructions.0), false),
    }
}

fn perturb_signatures(g: &mut Gen, sigs: &mut Vec<IntentSignatureV1>) -> &'static str {
    let n = sigs.len();
    match g.below(5) {
        0 | 1 if n > 0 => {
            let i = g.index(n);
            match &mut sigs[i].0 {
                SignatureWithPublicKeyV1::Secp256k1 { signature } => flip(g, &mut signature.0),
                SignatureWithPublicKeyV1::Ed25519 { public_key, signature } => {
                    if g.bool() {
                        flip(g, &mut signature.0)
                    } else {
                        flip(g, &mut public_key.0)
                    }
                }
            }
            "signature byte"
        }
        2 if n > 0 => {
            sigs.remove(g.index(n));
            "signature removed"
        }
        3 if n > 1 && sigs[0] != sigs[n - 1] => {
            sigs.swap(0, n - 1);
            "signatures reordered"
        }
        _ => {
            let k = KeyRef::draw(g);
            sigs.insert(g.index(n + 1), IntentSignatureV1(k.sign_with_public_key(&Hash(g.array::<32>()))));
            "signature added"
        }
    }
}

fn perturb_notary_sig(g: &mut Gen, s: &mut SignatureV1) -> &'static str {
    if g.chance(1, 4) {
        *s = match s {
            SignatureV1::Secp256k1(_) => SignatureV1::Ed25519(Ed25519Signature([7; 64])),
            SignatureV1::Ed25519(_) => SignatureV1::Secp256k1(Secp256k1Signature([1; 65])),
        };
        "notary signature curve"
    } else {
        match s {
            SignatureV1::Secp256k1(x) => flip(g, &mut x.0),
            SignatureV1::Ed25519(x) => flip(g, &mut x.0),
        }
        "notary signature byte"
    }
}

fn perturb_v1_case(g: &mut Gen) -> Outcome {
    let o = Opts::default();
    let b = gen_v1(g, &o);
    let mut t = b.tx.clone();
    let (scope, what, nested) = match g.weighted(&[8, 3, 2]) {
        0 => {
            let i = &mut t.signed_intent.intent;
            let (w, nested) = match g.weighted(&[6, 3, 3, 3]) {
                0 => {
                    let h = &mut i.header;
                    (
                        match g.below(7) {
                            0 => {
                                h.network_id ^= 1 << g.below(8);
                                "header network id"
                            }
                            1 => {
                                h.start_epoch_inclusive = Epoch::of(h.start_epoch_inclusive.number().wrapping_add(1));
                                "header start epoch"
                            }
                            2 => {
                                h.end_epoch_exclusive = Epoch::of(h.end_epoch_exclusive.number().wrapping_sub(1));
                                "header end epoch"
                            }
                            3 => {
                                h.nonce ^= 1 << g.below(32);
                                "header nonce"
                            }
                            4 => {
                                perturb_public_key(g, &mut h.notary_public_key);
                                "header notary key"
                            }
                            5 => {
                                h.notary_is_signatory = !h.notary_is_signatory;
                                "header notary_is_signatory"
                            }
                            _ => {
                                h.tip_percentage ^= 1 << g.below(16);
                                "header tip"
                            }
                        },
                        false,
                    )
                }
                1 => (perturb_blobs(g, &mut i.blobs), true),
                2 => (perturb_message_v1(g, &mut i.message), true),
                _ => (perturb_instructions_v1(g, &mut i.instructions.0), false),
            };
            (Scope::RootIntent, w, nested)
        }
        1 => (Scope::IntentSignatures, perturb_signatures(g, &mut t.signed_intent.intent_signatures.signatures), false),
        _ => (Scope::NotarySignature, perturb_notary_sig(g, &mut t.notary_signature.0), false),
    };
    g.label("v1");
    g.label(what);
    if nested {
        g.nontrivial();
    }
    if t == b.tx {
        return Outcome::Discard;
    }
    g.sample(|| format!("perturb [{}] ({:?}) of {}", what, scope, case_v1(Kind::NotarizedV1, &b).render));
    let raw0 = b.tx.to_raw().unwrap().to_vec();
    let raw1 = t.to_raw().unwrap().to_vec();
    let h0 = match prepare_hashes(Kind::NotarizedV1, &raw0, &settings()) {
        Ok(h) => h,
        Err(e) => return Outcome::fail("notarized v1: prepare rejects a well-formed payload", format!("{:?}: {}", e, hex::encode(&raw0))),
    };
    let h1 = match prepare_hashes(Kind::NotarizedV1, &raw1, &settings()) {
        Ok(h) => h,
        Err(e) => return Outcome::fail("notarized v1: prepare rejects a well-formed perturbed payload", format!("[{}] {:?}: {}", what, e, hex::encode(&raw1))),
    };
    if let Err(f) = check_expected(Kind::NotarizedV1, &h1, &expected_v1(&t), &raw1) {
        return Outcome::Fail(f);
    }
    // [notarized, signed, intent]
    let (n_changes, s_changes, i_changes) = (h0[0] != h1[0], h0[1] != h1[1], h0[2] != h1[2]);
    let ctx = || format!("perturbation [{}]\noriginal  {}\nperturbed {}\nhashes before [notarized,signed,intent] {}\nhashes after  {}", what, hex::encode(&raw0), hex::encode(&raw1), hxs(&h0), hxs(&h1));
    ensure!(n_changes, "v1: a changed field does not change the notarized transaction hash", "{}", ctx());
    match scope {
        Scope::RootIntent => {
            ensure!(i_changes, "v1: a changed intent field does not change the intent hash", "{}", ctx());
            ensure!(s_changes, "v1: a changed intent field does not change the signed intent hash", "{}", ctx());
        }
        Scope::IntentSignatures => {
            ensure!(!i_changes, "v1: a changed signature changes the intent hash", "{}", ctx());
            ensure!(s_changes, "v1: a changed intent signature does not change the signed intent hash", "{}", ctx());
        }
        Scope::NotarySignature => {
            ensure!(!i_changes, "v1: a changed notary signature changes the intent hash", "{}", ctx());
            ensure!(!s_changes, "v1: a changed notary signature changes the signed intent hash", "{}", ctx());
        }
        _ => unreachable!(),
    }
    Outcome::Pass
}

fn perturb_v2_case(g: &mut Gen) -> Outcome {
    let o = Opts::default();
    let b = gen_v2(g, &o);
    let mut t = b.tx.clone();
    let n_sub = b.plan.len();
    let (scope, what, nested) = {
        let st = &mut t.signed_transaction_intent;
        match g.weighted(&[2, 5, if n_sub > 0 { 6 } else { 0 }, if n_sub > 1 { 2 } else { 0 }, 2, if n_sub > 0 { 2 } else { 0 }, 2]) {
            0 => {
                let h = &mut st.transaction_intent.transaction_header;
                let w = match g.below(3) {
                    0 => {
                        perturb_public_key(g, &mut h.notary_public_key);
                        "tx header notary key"
                    }
                    1 => {
                        h.notary_is_signatory = !h.notary_is_signatory;
                        "tx header notary_is_signatory"
                    }
                    _ => {
                        h.tip_basis_points ^= 1 << g.below(32);
                        "tx header tip"
                    }
                };
                (Scope::RootIntent, w, false)
            }
            1 => {
                let (w, nested) = perturb_core(g, &mut st.transaction_intent.root_intent_core);
                (Scope::RootIntent, w, nested)
            }
            2 => {
                let i = g.index(n_sub);
                let (w, _) = perturb_core(g, &mut st.transaction_intent.non_root_subintents.0[i].intent_core);
                (Scope::Sub(i), w, true)
            }
            3 => {
                let subs = &mut st.transaction_intent.non_root_subintents.0;
                if g.bool() {
                    subs.swap(0, n_sub - 1);
                    (Scope::SubList, "subintents reordered", true)
                } else {
                    subs.remove(g.index(n_sub));
                    (Scope::SubList, "subintent removed", true)
                }
            }
            4 => (Scope::IntentSignatures, perturb_signatures(g, &mut st.transaction_intent_signatures.signatures), false),
            5 => {
                let batches = &mut st.non_root_subintent_signatures.by_subintent;
                if g.chance(1, 4) {
                    batches.push(IntentSignaturesV2::none());
                    (Scope::IntentSignatures, "signature batch added", true)
                } else {
                    let i = g.index(n_sub);
                    (Scope::IntentSignatures, perturb_signatures(g, &mut batches[i].signatures), true)
                }
            }
            _ => (Scope::NotarySignature, perturb_notary_sig(g, &mut t.notary_signature.0), false),
        }
    };
    g.label("v2");
    g.label(what);
    if n_sub > 0 || nested {
        g.nontrivial();
    }
    if n_sub > 0 {
        g.label("has subintents");
    }
    if t == b.tx {
        return Outcome::Discard;
    }
    g.sample(|| format!("perturb [{}] ({:?}) of {}", what, scope, render_v2(&b)));
    let raw0 = b.tx.to_raw().unwrap().to_vec();
    let raw1 = t.to_raw().unwrap().to_vec();
    let h0 = match prepare_hashes(Kind::NotarizedV2, &raw0, &settings()) {
        Ok(h) => h,
        Err(e) => return Outcome::fail("notarized v2: prepare rejects a well-formed payload", format!("{:?}: {}", e, hex::encode(&raw0))),
    };
    let h1 = match prepare_hashes(Kind::NotarizedV2, &raw1, &settings()) {
        Ok(h) => h,
        Err(e) => return Outcome::fail("notarized v2: prepare rejects a well-formed perturbed payload", format!("[{}] {:?}: {}", what, e, hex::encode(&raw1))),
    };
    if let Err(f) = check_expected(Kind::NotarizedV2, &h1, &expected_v2(&t), &raw1) {
        return Outcome::Fail(f);
    }
    let ctx = || {
        format!(
            "perturbation [{}] scope {:?}\noriginal  {}\nperturbed {}\nhashes before [notarized,signed,intent,subintents..] {}\nhashes after  {}",
            what,
            scope,
            hex::encode(&raw0),
            hex::encode(&raw1),
            hxs(&h0),
            hxs(&h1)
        )
    };
    let (n_changes, s_changes, i_changes) = (h0[0] != h1[0], h0[1] != h1[1], h0[2] != h1[2]);
    ensure!(n_changes, "v2: a changed field does not change the notarized transaction hash", "{}", ctx());
    match scope {
        Scope::RootIntent => {
            ensure!(i_changes && s_changes, "v2: a changed root intent field does not change the intent / signed intent hash", "{}", ctx());
            ensure!(h0[3..] == h1[3..], "v2: a changed root intent field changes a subintent hash", "{}", ctx());
        }
        Scope::Sub(k) => {
            ensure!(i_changes && s_changes, "v2: a changed subintent field does not change the enclosing intent / signed intent hash", "{}", ctx());
            for j in 0..n_sub {
                if j == k {
                    ensure!(h0[3 + j] != h1[3 + j], "v2: a changed subintent field does not change that subintent's hash", "subintent {}: {}", j, ctx());
                } else {
                    ensure!(h0[3 + j] == h1[3 + j], "v2: a changed subintent field changes a sibling subintent's hash", "subintent {}: {}", j, ctx());
                }
            }
        }
        Scope::SubList => {
            ensure!(i_changes && s_changes, "v2: reordering / removing subintents does not change the intent / signed intent hash", "{}", ctx());
            // each remaining subintent keeps its own hash
            let before: std::collections::BTreeSet<Hash> = h0[3..].iter().cloned().collect();
            for h in &h1[3..] {
                ensure!(before.contains(h), "v2: reordering / removing subintents changes a subintent's own hash", "{}", ctx());
            }
        }
        Scope::IntentSignatures => {
            ensure!(!i_changes, "v2: a changed signature changes the intent hash", "{}", ctx());
            ensure!(h0[3..] == h1[3..], "v2: a changed signature changes a subintent hash", "{}", ctx());
            ensure!(s_changes, "v2: a changed intent signature does not change the signed intent hash", "{}", ctx());
        }
        Scope::NotarySignature => {
            ensure!(!i_changes && !s_changes, "v2: a changed notary signature changes the intent / signed intent hash", "{}", ctx());
            ensure!(h0[3..] == h1[3..], "v2: a changed notary signature changes a subintent hash", "{}", ctx());
        }
    }
    Outcome::Pass
}

fn perturb_partial_case(g: &mut Gen) -> Outcome {
    let o = Opts::default();
    let b = gen_partial(g, &o);
    let mut t = b.tx.clone();
    let n_sub = b.plan.len();
    let (scope, what) = match g.weighted(&[4, if n_sub > 0 { 4 } else { 0 }, 2]) {
        0 => (Scope::RootIntent, perturb_core(g, &mut t.partial_transaction.root_subintent.intent_core).0),
        1 => {
            let i = g.index(n_sub);
            (Scope::Sub(i), perturb_core(g, &mut t.partial_transaction.non_root_subintents.0[i].intent_core).0)
        }
        _ => (Scope::IntentSignatures, perturb_signatures(g, &mut t.root_subintent_signatures.signatures)),
    };
    g.label("partial");
    g.label(what);
    g.nontrivial();
    if t == b.tx {
        return Outcome::Discard;
    }
    g.sample(|| format!("perturb [{}] ({:?}) of {}", what, scope, render_partial(&b)));
    let raw0 = b.tx.to_raw().unwrap().to_vec();
    let raw1 = t.to_raw().unwrap().to_vec();
    let h0 = match prepare_hashes(Kind::SignedPartialV2, &raw0, &settings()) {
        Ok(h) => h,
        Err(e) => return Outcome::fail("signed partial v2: prepare rejects a well-formed payload", format!("{:?}: {}", e, hex::encode(&raw0))),
    };
    let h1 = match prepare_hashes(Kind::SignedPartialV2, &raw1, &settings()) {
        Ok(h) => h,
        Err(e) => return Outcome::fail("signed partial v2: prepare rejects a well-formed perturbed payload", format!("[{}] {:?}: {}", what, e, hex::encode(&raw1))),
    };
    if let Err(f) = check_expected(Kind::SignedPartialV2, &h1, &expected_partial(&t.partial_transaction), &raw1) {
        return Outcome::Fail(f);
    }
    let ctx = || format!("perturbation [{}] scope {:?}\noriginal  {}\nperturbed {}\nhashes before [summary,root,subintents..] {}\nafter {}", what, scope, hex::encode(&raw0), hex::encode(&raw1), hxs(&h0), hxs(&h1));
    ensure!(h0[0] != h1[0], "partial: a changed field does not change the payload's summary hash", "{}", ctx());
    match scope {
        Scope::RootIntent => {
            ensure!(h0[1] != h1[1], "partial: a changed root subintent field does not change its hash", "{}", ctx());
            ensure!(h0[2..] == h1[2..], "partial: a changed root subintent field changes another subintent's hash", "{}", ctx());
        }
        Scope::Sub(k) => {
            ensure!(h0[1] == h1[1], "partial: a changed non-root subintent field changes the root subintent hash", "{}", ctx());
            for j in 0..n_sub {
                ensure!((h0[2 + j] != h1[2 + j]) == (j == k), "partial: a changed subintent field changes exactly that subintent's hash", "subintent {}: {}", j, ctx());
            }
        }
        _ => {
            ensure!(h0[1..] == h1[1..], "partial: a changed signature changes a subintent hash", "{}", ctx());
        }
    }
    Outcome::Pass
}

fn perturb(g: &mut Gen) -> Outcome {
    match g.weighted(&[3, 6, 2]) {
        0 => perturb_v1_case(g),
        1 => perturb_v2_case(g),
        _ => perturb_partial_case(g),
    }
}

// ---- part 3: byte-level mutation ------------------------------------------------------------

fn bytes(g: &mut Gen) -> Outcome {
    let o = Opts { max_body: 2, ..Opts::default() };
    let c = gen_case(g, &o);
    let s = settings();
    let h0 = match prepare_hashes(c.kind, &c.raw, &s) {
        Ok(h) => h,
        Err(e) => return Outcome::fail(format!("{}: prepare rejects a well-formed payload", c.kind.name()), format!("{:?}: payload {}", e, hex::encode(&c.raw))),
    };
    let mut m = c.raw.clone();
    let n_mut = 1 + g.weighted(&[6, 1]);
    let mut classes: Vec<&'static str> = Vec::new();
    let explicit = g.weighted(&[10, 2, 2, 6]);
    match explicit {
        1 => {
            // wrong payload discriminator
            let mut d = g.below(17) as u8;
            if d == m[2] {
                d = d.wrapping_add(1);
            }
            m[2] = d;
            classes.push("wrong discriminator");
        }
        2 => {
            let n = 1 + g.below(3) as usize;
            for _ in 0..n {
                m.push(g.u8());
            }
            classes.push("trailing bytes");
        }
        3 => {
            // structured: duplicate / remove / swap elements of one SBOR array, count kept consistent
            match mutate_sbor_array(g, &mut m) {
                Some(cl) => classes.push(cl),
                None => classes.push(mutate_bytes(g, &mut m)),
            }
        }
        _ => {
            for _ in 0..n_mut {
                classes.push(mutate_bytes(g, &mut m));
            }
        }
    }
    for cl in &classes {
        g.label(cl);
    }
    g.label(c.kind.name());
    if m == c.raw {
        return Outcome::Discard;
    }
    g.sample(|| format!("{} ({} bytes) mutated by {:?}: {}", c.kind.name(), c.raw.len(), classes, c.render));
    let prepared = prepare_hashes(c.kind, &m, &s);
    let decoded = decode_reencode(c.kind, &m);
    let ctx = || format!("mutations {:?}\noriginal {}\nmutated  {}", classes, hex::encode(&c.raw), hex::encode(&m));
    if let Err(Err(p)) = &prepared {
        return Outcome::fail(format!("{}: prepare panics on a mutated payload", c.kind.name()), format!("{}\n{}", p, ctx()));
    }
    if let Err(e) = &decoded {
        if e.starts_with("PANIC") {
            return Outcome::fail(format!("{}: from_raw panics on a mutated payload", c.kind.name()), format!("{}\n{}", e, ctx()));
        }
    }
    match (&prepared, &decoded) {
        (Ok(h1), dec) => {
            g.label("mutant accepted by prepare");
            g.nontrivial();
            if explicit == 1 {
                // user dispatch (UserV1/UserV2) legitimately accepts the other user discriminator only if
                // the rest parses as that version, which a single discriminator change cannot achieve
                return Outcome::fail(format!("{}: payload with a wrong discriminator is accepted", c.kind.name()), ctx());
            }
            if explicit == 2 || (classes.len() == 1 && classes[0] == "append") {
                return Outcome::fail(format!("{}: payload with trailing bytes is accepted", c.kind.name()), ctx());
            }
            // a different accepted byte string must have a different identifier
            ensure!(
                h1[0] != h0[0],
                format!("{}: two different accepted payloads have the same identifier", c.kind.name()),
                "identifier {} for both\n{}",
                h1[0],
                ctx()
            );
            match dec {
                Ok(again) => {
                    ensure!(
                        again == &m,
                        format!("{}: accepted payload is not in canonical form (re-encodes differently)", c.kind.name()),
                        "re-encoded {}\n{}",
                        hex::encode(again),
                        ctx()
                    );
                }
                Err(e) => {
                    // The one known, real exception: a preview payload's root signer keys are a
                    // set in the model but are prepared as a plain list (duplicates are left to
                    // validation, which reports DuplicateSigner).
                    if c.kind == Kind::PreviewV2 && e.contains("DuplicateKey") {
                        g.label("preview v2: prepared with a duplicated root signer key (model decoder rejects; left to validation)");
                    } else {
                        return Outcome::fail(
                            format!("{}: payload accepted by prepare is rejected by the model decoder (not a canonical payload)", c.kind.name()),
                            format!("model decoder: {}\n{}", e, ctx()),
                        );
                    }
                }
            }
        }
        (Err(_), Ok(again)) => {
            g.label("mutant rejected by prepare, decodable");
            ensure!(
                again == &m,
                format!("{}: decodable payload is not in canonical form (re-encodes differently)", c.kind.name()),
                "re-encoded {}\n{}",
                hex::encode(again),
                ctx()
            );
        }
        (Err(_), Err(_)) => {
            g.label("mutant rejected");
            // landing inside a nested part counts as non-trivial as well
            if c.has_subintents {
                g.nontrivial();
            }
        }
    }
    Outcome::Pass
}

// ---- part 4: size limits at their exact boundary --------------------------------------------

fn limits(g: &mut Gen) -> Outcome {
    let o = Opts { max_body: 2, ..Opts::default() };
    let base = PreparationSettings::latest();
    match g.below(5) {
        0 => {
            // payload length limit (user and ledger payloads)
            let ledger = g.bool();
            let (kind, raw) = if ledger {
                let t = gen_ledger(g, &o);
                (Kind::Ledger, t.to_raw().unwrap().to_vec())
            } else if g.bool() {
                (Kind::UserV1, gen_v1(g, &o).tx.to_raw().unwrap().to_vec())
            } else {
                (Kind::UserV2, gen_v2(g, &o).tx.to_raw().unwrap().to_vec())
            };
            g.label("payload length limit");
            g.nontrivial();
            g.sample(|| format!("{} of {} bytes against length limits len-1 / len / len+1", kind.name(), raw.len()));
            for (limit, expect_ok) in [(raw.len() - 1, false), (raw.len(), true), (raw.len() + 1, true)] {
                let s = if ledger { PreparationSettings { max_ledger_payload_length: limit, ..base } } else { PreparationSettings { max_user_payload_length: limit, ..base } };
                let r = prepare_hashes(kind, &raw, &s);
                match (&r, expect_ok) {
                    (Ok(_), true) => {}
                    (Err(Ok(PrepareError::TransactionTooLarge)), false) => {}
                    _ => {
                        return Outcome::fail(
                            format!("{}: payload length limit is not enforced at its exact boundary", kind.name()),
                            format!("payload of {} bytes, limit {}: expected {}, got {:?}", raw.len(), limit, if expect_ok { "accepted" } else { "TransactionTooLarge" }, r.map(|h| hxs(&h))),
                        )
                    }
                }
            }
            Outcome::Pass
        }
        1 => {
            // blob count limit
            let mut b = gen_v1(g, &o);
            let n = g.len(5);
            b.tx.signed_intent.intent.blobs.blobs = (0..n).map(|i| BlobV1(vec![i as u8, g.u8()])).collect();
            let raw = b.tx.to_raw().unwrap().to_vec();
            g.label("blob count limit");
            g.nontrivial();
            g.sample(|| format!("V1 transaction with {} blobs against max_blobs n-1 / n / n+1", n));
            for (limit, expect_ok) in [(n.wrapping_sub(1), false), (n, true), (n + 1, true)] {
                if n == 0 && !expect_ok {
                    continue;
                }
                let s = PreparationSettings { max_blobs: limit, ..base };
                let r = prepare_hashes(Kind::NotarizedV1, &raw, &s);
                let ok = match (&r, expect_ok) {
                    (Ok(_), true) => true,
                    (Err(Ok(PrepareError::TooManyValues { value_type: ValueType::Blob, actual, max })), false) => *actual == n && *max == limit,
                    _ => false,
                };
                ensure!(ok, "blob count limit is not enforced at its exact boundary", "{} blobs, max_blobs {}: got {:?}", n, limit, r.map(|h| hxs(&h)));
            }
            Outcome::Pass
        }
        2 => {
            // subintent count limit (and signature batch count)
            let b = gen_v2(g, &o);
            let n = b.plan.len();
            let raw = b.tx.to_raw().unwrap().to_vec();
            g.label("subintent count limit");
            g.nontrivial();
            g.sample(|| format!("limits: {}", render_v2(&b)));
            let max_children = b.tx.signed_transaction_intent.transaction_intent.root_intent_core.children.children.len().max(
                b.tx.signed_transaction_intent.transaction_intent.non_root_subintents.0.iter().map(|s| s.intent_core.children.children.len()).max().unwrap_or(0),
            );
            for (limit, expect_ok) in [(n.wrapping_sub(1), false), (n, true), (n + 1, true)] {
                if n == 0 && !expect_ok {
                    continue;
                }
                let s = PreparationSettings { max_subintents_per_transaction: limit, max_child_subintents_per_intent: max_children, ..base };
                let r = prepare_hashes(Kind::NotarizedV2, &raw, &s);
                let ok = match (&r, expect_ok) {
                    (Ok(_), true) => true,
                    (Err(Ok(PrepareError::TooManyValues { value_type: ValueType::Subintent, actual, max })), false) => *actual == n && *max == limit,
                    _ => false,
                };
                ensure!(ok, "subintent count limit is not enforced at its exact boundary", "{} subintents, limit {}: got {:?}", n, limit, r.map(|h| hxs(&h)));
            }
            Outcome::Pass
        }
        3 => {
            // children per intent limit
            let b = gen_v2(g, &o);
            let ti = &b.tx.signed_transaction_intent.transaction_intent;
            let max_children = ti.root_intent_core.children.children.len().max(ti.non_root_subintents.0.iter().map(|s| s.intent_core.children.children.len()).max().unwrap_or(0));
            let raw = b.tx.to_raw().unwrap().to_vec();
            g.label("children per intent limit");
            if max_children > 0 {
                g.nontrivial();
            }
            g.sample(|| format!("children limit ({} max children): {}", max_children, render_v2(&b)));
            for (limit, expect_ok) in [(max_children.wrapping_sub(1), false), (max_children, true), (max_children + 1, true)] {
                if max_children == 0 && !expect_ok {
                    continue;
                }
                let s = PreparationSettings { max_child_subintents_per_intent: limit, ..base };
                let r = prepare_hashes(Kind::NotarizedV2, &raw, &s);
                let ok = match (&r, expect_ok) {
                    (Ok(_), true) => true,
                    (Err(Ok(PrepareError::TooManyValues { value_type: ValueType::ChildSubintentSpecifier, max, .. })), false) => *max == limit,
                    _ => false,
                };
                ensure!(ok, "children-per-intent limit is not enforced at its exact boundary", "max children {}, limit {}: got {:?}", max_children, limit, r.map(|h| hxs(&h)));
            }
            Outcome::Pass
        }
        _ => {
            // V2 payloads when V2 is not permitted
            let b = gen_v2(g, &o);
            let raw = b.tx.to_raw().unwrap().to_vec();
            g.label("v2 not permitted");
            if !b.plan.is_empty() {
                g.nontrivial();
            }
            g.sample(|| format!("v2 under babylon settings: {}", render_v2(&b)));
            let s = PreparationSettings { v2_transactions_permitted: false, ..base };
            let r = prepare_hashes(Kind::UserV2, &raw, &s);
            ensure!(
                matches!(r, Err(Ok(PrepareError::TransactionTypeNotSupported))),
                "a V2 transaction is prepared although V2 transactions are not permitted",
                "got {:?}",
                r.map(|h| hxs(&h))
            );
            Outcome::Pass
        }
    }
}

fn roundtrip_or_twin(g: &mut Gen) -> Outcome {
    if g.chance(1, 6) {
        builder_twin(g)
    } else {
        roundtrip(g)
    }
}

pub fn check() -> Check {
    let _ = refhash::PREFIX;
    Check::new(
        "C32",
        "Transaction identifiers commit to the whole transaction",
        "part roundtrip: generated payloads of every kind (V1/V2 notarized, user dispatch, (signed) partial, preview, system, round update, flash, ledger, bare intents) must decode and re-encode to the same bytes (typed model and AnyTransaction), prepare must succeed and every named hash must equal the harness's own transcription of the documented hashing scheme (blake2 crate); 1/6 of the cases rebuild a V1 transaction through the repository's TransactionBuilder and demand the identical transaction. part perturb: exactly one model field of a V1 / V2 / partial transaction is changed; hashes of parts containing the field must change, hashes of parts not containing it must not, and all hashes must again equal the reference. part bytes: 1-2 byte-level mutations (bit flip, replace, insert, delete, truncate, append, LEB128 padding, wrong payload discriminator, trailing bytes) or one structured mutation (an element of an SBOR array / map duplicated, removed or two swapped, with the element count kept consistent) of a raw payload: it is rejected by prepare, or it has a different identifier, decodes as the model and re-encodes to exactly the mutated bytes (only exception: a preview payload with a duplicated root signer key, which the model's set type rejects and validation reports). part limits: payload length, blob count, subintent count, children-per-intent limits at limit-1 / limit / limit+1 and the V2-not-permitted switch. Non-trivial = payload with subintents, or a perturbation inside a nested part (blob, message, child list), or a mutant accepted by prepare, or an exact limit boundary.",
    )
    .assume("manifest_encode of the individual parts is trusted (C20 covers SBOR)")
    .part(Part::new("roundtrip", 400_000, 12_000_000, 1200, roundtrip_or_twin))
    .part(Part::new("perturb", 400_000, 12_000_000, 1200, perturb))
    .part(Part::new("bytes", 800_000, 25_000_000, 1200, bytes))
    .part(Part::new("limits", 60_000, 2_000_000, 1200, limits))
    .min_nontrivial_pct(20.0)
}
