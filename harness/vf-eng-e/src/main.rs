fn main() {
    let a: Vec<String> = std::env::args().collect();
    if a.get(1).map(|s| s.as_str()) == Some("dump-catalogue") {
        vf_eng_e::env::dump_catalogue();
        return;
    }
    vf_core::main_with(vf_eng_e::checks());
}
