//! C36 engine part: statically accepted manifests never fail at run time because of an unknown or
//! already consumed bucket, proof, address reservation, named address or blob.
//!
//! The generator builds V1 / V2 manifests over real addresses of the world with a concrete model of
//! the worktop, the named buckets and proofs, the auth zone, address reservations / named addresses
//! and blobs, so that every instruction succeeds when reached: withdraw, take (amount / ids / all),
//! return, burn, create_proof_from_bucket_*, clone / drop proof, push / pop auth zone,
//! create_proof_from_auth_zone_of_all, drop_auth_zone_proofs / drop_named_proofs / drop_all_proofs,
//! deposit, calls of a puppet component that receives buckets and proofs and hands the buckets
//! back, ALLOCATE_GLOBAL_ADDRESS + a puppet function that globalizes with the reservation + a call
//! of the named address, blobs referenced from call arguments. About half of the manifests carry
//! one planted lifecycle fault (stale / future bucket, proof, reservation; the same bucket twice in
//! a call; unknown named address; undeclared blob) placed where everything before it succeeds.
//!
//! Oracle: every manifest the static validator accepts (`ValidationRuleset::all()`) is executed;
//! its receipt must not be a failure with `TransactionProcessorError::{BucketNotFound,
//! ProofNotFound, AddressReservationNotFound, AddressNotFound, BlobNotFound}`.

use crate::env::*;
use radix_engine::errors::*;
use radix_engine::system::transaction::intent_processor::TransactionProcessorError;
use radix_transactions::manifest::*;
use scrypto_test::prelude::*;
use std::collections::BTreeMap;
use std::rc::Rc;
use vf_core::{Gen, Outcome, Part};
use vf_eng_c::pup::{enc, marker, script_manifest_args, v_own_lit, v_tuple, v_u32, B};
use vf_world::*;

#[derive(Clone, Copy, Debug, PartialEq, Eq)]
enum Fault {
    StaleBucket,
    FutureBucket,
    SameBucketTwice,
    StaleProof,
    FutureProof,
    StaleReservation,
    FutureReservation,
    UnknownNamedAddress,
    UndeclaredBlob,
}

const FAULTS: [Fault; 9] = [
    Fault::StaleBucket,
    Fault::FutureBucket,
    Fault::SameBucketTwice,
    Fault::StaleProof,
    Fault::FutureProof,
    Fault::StaleReservation,
    Fault::FutureReservation,
    Fault::UnknownNamedAddress,
    Fault::UndeclaredBlob,
];

impl Fault {
    fn name(&self) -> &'static str {
        match self {
            Fault::StaleBucket => "planted: bucket used after consumption",
            Fault::FutureBucket => "planted: bucket used before creation",
            Fault::SameBucketTwice => "planted: same bucket twice in one call",
            Fault::StaleProof => "planted: proof used after consumption",
            Fault::FutureProof => "planted: proof used before creation",
            Fault::StaleReservation => "planted: reservation used after consumption",
            Fault::FutureReservation => "planted: reservation used before creation",
            Fault::UnknownNamedAddress => "planted: unknown named address as call target",
            Fault::UndeclaredBlob => "planted: undeclared blob",
        }
    }
}

struct Bk {
    res: ResourceAddress,
    amount: Decimal,
    live: bool,
    /// number of live proofs (named or in the auth zone) created from this bucket
    locks: u32,
}

struct Pf {
    live: bool,
    /// buckets this proof locks
    buckets: Vec<usize>,
}

struct St<'a> {
    w: &'a World,
    gp: ComponentAddress,
    ins: Vec<InstructionV2>,
    blobs: IndexMap<Hash, Vec<u8>>,
    wt: BTreeMap<ResourceAddress, Decimal>,
    buckets: Vec<Bk>,
    proofs: Vec<Pf>,
    /// proofs of mine in the auth zone (the buckets each locks), in push order
    auth_zone: Vec<Vec<usize>>,
    reservations: Vec<bool>,
    named: u32,
    log: Vec<String>,
    created_consumed: u32,
    res_list: Vec<ResourceAddress>,
    /// DROP_AUTH_ZONE_PROOFS / DROP_ALL_PROOFS also drop the signature proofs: no owner calls afterwards
    signatures_dropped: bool,
}

fn call(address: impl Into<GlobalAddress>, method: &str, args: impl ManifestEncode) -> InstructionV2 {
    let a: GlobalAddress = address.into();
    InstructionV2::CallMethod(CallMethod { address: ManifestGlobalAddress::Static(a), method_name: method.to_string(), args: manifest_decode(&manifest_encode(&args).unwrap()).unwrap() })
}

impl<'a> St<'a> {
    fn live_buckets(&self, unlocked_only: bool) -> Vec<usize> {
        (0..self.buckets.len()).filter(|i| self.buckets[*i].live && (!unlocked_only || self.buckets[*i].locks == 0)).collect()
    }
    fn live_proofs(&self) -> Vec<usize> {
        (0..self.proofs.len()).filter(|i| self.proofs[*i].live).collect()
    }
    fn dead_buckets(&self) -> Vec<usize> {
        (0..self.buckets.len()).filter(|i| !self.buckets[*i].live).collect()
    }
    fn dead_proofs(&self) -> Vec<usize> {
        (0..self.proofs.len()).filter(|i| !self.proofs[*i].live).collect()
    }

    fn withdraw(&mut self, g: &mut Gen) {
        if self.signatures_dropped {
            return;
        }
        let res = *g.pick(&self.res_list);
        let amt = Decimal::from(1 + g.below(20));
        self.ins.push(call(self.w.accounts[1].address, ACCOUNT_WITHDRAW_IDENT, (res, amt)));
        *self.wt.entry(res).or_insert(Decimal::ZERO) += amt;
        self.log.push(format!("withdraw {}", amt));
    }

    fn take(&mut self, g: &mut Gen) -> bool {
        let on: Vec<ResourceAddress> = self.wt.iter().filter(|(_, a)| a.is_positive()).map(|(r, _)| *r).collect();
        if on.is_empty() {
            return false;
        }
        let res = *g.pick(&on);
        let have = self.wt[&res];
        let amt = if g.bool() {
            self.ins.push(InstructionV2::TakeAllFromWorktop(TakeAllFromWorktop { resource_address: res }));
            have
        } else {
            let a = Decimal::from(1 + g.below(3)).min(have);
            self.ins.push(InstructionV2::TakeFromWorktop(TakeFromWorktop { resource_address: res, amount: a }));
            a
        };
        *self.wt.get_mut(&res).unwrap() -= amt;
        self.log.push(format!("b{} = take {}", self.buckets.len(), amt));
        self.buckets.push(Bk { res, amount: amt, live: true, locks: 0 });
        true
    }

    fn consume_bucket(&mut self, b: usize) {
        self.buckets[b].live = false;
        self.created_consumed += 1;
    }

    fn return_bucket(&mut self, b: usize) {
        self.ins.push(InstructionV2::ReturnToWorktop(ReturnToWorktop { bucket_id: ManifestBucket(b as u32) }));
        let (res, amt) = (self.buckets[b].res, self.buckets[b].amount);
        *self.wt.entry(res).or_insert(Decimal::ZERO) += amt;
        self.consume_bucket(b);
        self.log.push(format!("return b{}", b));
    }

    fn deposit_bucket(&mut self, g: &mut Gen, b: usize) {
        let a = self.w.accounts[1 + g.index(3)].address;
        self.ins.push(call(a, ACCOUNT_TRY_DEPOSIT_OR_ABORT_IDENT, (ManifestBucket(b as u32), Option::<ResourceOrNonFungible>::None)));
        self.consume_bucket(b);
        self.log.push(format!("deposit b{}", b));
    }

    fn new_proof(&mut self, g: &mut Gen) -> bool {
        let live: Vec<usize> = self.live_buckets(false).into_iter().filter(|b| self.buckets[*b].amount.is_positive()).collect();
        if live.is_empty() {
            return false;
        }
        let b = *g.pick(&live);
        if g.bool() {
            self.ins.push(InstructionV2::CreateProofFromBucketOfAll(CreateProofFromBucketOfAll { bucket_id: ManifestBucket(b as u32) }));
        } else {
            self.ins.push(InstructionV2::CreateProofFromBucketOfAmount(CreateProofFromBucketOfAmount { bucket_id: ManifestBucket(b as u32), amount: self.buckets[b].amount }));
        }
        self.buckets[b].locks += 1;
        self.log.push(format!("p{} = proof of b{}", self.proofs.len(), b));
        self.proofs.push(Pf { live: true, buckets: vec![b] });
        true
    }

    fn clone_proof(&mut self, g: &mut Gen) -> bool {
        let live = self.live_proofs();
        if live.is_empty() {
            return false;
        }
        let p = *g.pick(&live);
        self.ins.push(InstructionV2::CloneProof(CloneProof { proof_id: ManifestProof(p as u32) }));
        let bs = self.proofs[p].buckets.clone();
        for b in &bs {
            self.buckets[*b].locks += 1;
        }
        self.log.push(format!("p{} = clone p{}", self.proofs.len(), p));
        self.proofs.push(Pf { live: true, buckets: bs });
        true
    }

    fn drop_proof(&mut self, g: &mut Gen) -> bool {
        let live = self.live_proofs();
        if live.is_empty() {
            return false;
        }
        let p = *g.pick(&live);
        self.ins.push(InstructionV2::DropProof(DropProof { proof_id: ManifestProof(p as u32) }));
        self.kill_proof(p);
        self.log.push(format!("drop p{}", p));
        true
    }

    fn push_proof(&mut self, g: &mut Gen) -> bool {
        let live = self.live_proofs();
        if live.is_empty() {
            return false;
        }
        let p = *g.pick(&live);
        self.ins.push(InstructionV2::PushToAuthZone(PushToAuthZone { proof_id: ManifestProof(p as u32) }));
        self.proofs[p].live = false;
        self.auth_zone.push(self.proofs[p].buckets.clone());
        self.created_consumed += 1;
        self.log.push(format!("push p{}", p));
        true
    }

    fn pop_proof(&mut self) -> bool {
        let Some(bs) = self.auth_zone.pop() else { return false };
        self.ins.push(InstructionV2::PopFromAuthZone(PopFromAuthZone));
        self.log.push(format!("p{} = pop", self.proofs.len()));
        self.proofs.push(Pf { live: true, buckets: bs });
        true
    }

    fn kill_proof(&mut self, p: usize) {
        self.proofs[p].live = false;
        for b in self.proofs[p].buckets.clone() {
            self.buckets[b].locks -= 1;
        }
        self.created_consumed += 1;
    }

    fn proof_from_auth_zone(&mut self, g: &mut Gen) -> bool {
        if self.auth_zone.is_empty() {
            return false;
        }
        let pick = g.index(self.auth_zone.len());
        let res = self.buckets[self.auth_zone[pick][0]].res;
        self.ins.push(InstructionV2::CreateProofFromAuthZoneOfAll(CreateProofFromAuthZoneOfAll { resource_address: res }));
        // the composed proof keeps every source of that resource locked
        let mut sources: Vec<usize> = Vec::new();
        for bs in &self.auth_zone {
            for b in bs {
                if self.buckets[*b].res == res {
                    sources.push(*b);
                }
            }
        }
        for b in &sources {
            self.buckets[*b].locks += 1;
        }
        self.log.push(format!("p{} = proof from auth zone", self.proofs.len()));
        self.proofs.push(Pf { live: true, buckets: sources });
        true
    }

    fn clear_auth_zone(&mut self) {
        for bs in std::mem::take(&mut self.auth_zone) {
            for b in bs {
                self.buckets[b].locks -= 1;
            }
        }
    }

    fn bulk_drop(&mut self, g: &mut Gen) {
        match g.below(4) {
            0 => {
                self.ins.push(InstructionV2::DropAuthZoneProofs(DropAuthZoneProofs));
                self.clear_auth_zone();
                self.signatures_dropped = true;
                self.log.push("drop_auth_zone_proofs".into());
            }
            1 => {
                self.ins.push(InstructionV2::DropAuthZoneRegularProofs(DropAuthZoneRegularProofs));
                self.clear_auth_zone();
                self.log.push("drop_auth_zone_regular_proofs".into());
            }
            2 => {
                self.ins.push(InstructionV2::DropNamedProofs(DropNamedProofs));
                self.drop_all_named();
                self.log.push("drop_named_proofs".into());
            }
            _ => {
                self.ins.push(InstructionV2::DropAllProofs(DropAllProofs));
                self.drop_all_named();
                self.clear_auth_zone();
                self.signatures_dropped = true;
                self.log.push("drop_all_proofs".into());
            }
        }
    }

    fn drop_all_named(&mut self) {
        for p in 0..self.proofs.len() {
            if self.proofs[p].live {
                self.kill_proof(p);
            }
        }
    }

    /// Puppet method call receiving buckets and proofs; buckets come back to the worktop.
    fn puppet_call(&mut self, g: &mut Gen, buckets: &[usize], proofs: &[usize], blob: Option<Hash>) {
        let mut ops = Vec::new();
        let mut vals = Vec::new();
        for b in buckets {
            vals.push(v_own_lit(marker(0, *b as u8)));
        }
        for p in proofs {
            vals.push(v_own_lit(marker(1, *p as u8)));
        }
        if !vals.is_empty() {
            ops.push(Op::Import(v_tuple(vals)));
        }
        if blob.is_some() {
            // a byte-array argument that is never interpreted: its place is taken by the blob reference
            ops.push(Op::Repeat { times: 0, ops: vec![Op::Return(BLOB_PLACE.to_vec())] });
        }
        ops.push(Op::ReturnLive);
        let mut args = script_manifest_args(&Script(ops));
        if let Some(h) = blob {
            let done = patch_blob(&mut args, &h);
            assert!(done, "blob place not found");
        }
        let method = if g.bool() { PUPPET_ACT } else { PUPPET_PEEK };
        self.ins.push(InstructionV2::CallMethod(CallMethod { address: ManifestGlobalAddress::Static(self.gp.into()), method_name: method.to_string(), args }));
        self.log.push(format!("puppet({:?}, {:?}{})", buckets, proofs, if blob.is_some() { ", blob" } else { "" }));
    }

    fn step_puppet(&mut self, g: &mut Gen) -> bool {
        let lb = self.live_buckets(true);
        let lp = self.live_proofs();
        let nb = g.index(lb.len().min(2) + 1);
        let np = g.index(lp.len().min(2) + 1);
        let bs: Vec<usize> = lb.iter().copied().filter(|b| *b < 250).take(nb).collect();
        let ps: Vec<usize> = lp.iter().copied().filter(|p| *p < 250).take(np).collect();
        self.puppet_call(g, &bs, &ps, None);
        for b in &bs {
            let (res, amt) = (self.buckets[*b].res, self.buckets[*b].amount);
            *self.wt.entry(res).or_insert(Decimal::ZERO) += amt;
            self.consume_bucket(*b);
        }
        for p in &ps {
            self.kill_proof(*p);
        }
        true
    }

    fn allocate(&mut self) {
        self.ins.push(InstructionV2::AllocateGlobalAddress(AllocateGlobalAddress { package_address: self.w.puppet_p, blueprint_name: PUPPET_BLUEPRINT.to_string() }));
        self.log.push(format!("r{} / n{} = allocate", self.reservations.len(), self.named));
        self.reservations.push(true);
        self.named += 1;
    }

    fn globalize_call(&mut self, r: usize) {
        let mut b = B::new();
        let res = b.op(Op::Import(v_tuple(vec![v_own_lit(marker(2, r as u8))])), 1);
        let o = b.op(Op::NewObject { blueprint: PUPPET_BLUEPRINT.into(), fields: vec![(0, enc(&v_u32(1)), false), (1, enc(&v_u32(2)), false), (2, enc(&v_u32(3)), false)], kv: vec![] }, 1);
        b.op(Op::Globalize { object: N::Slot(o), owner: OwnerSpec::None, reservation: Some(N::Slot(res)), with_royalty: false }, 1);
        self.ins.push(InstructionV2::CallFunction(CallFunction {
            package_address: ManifestPackageAddress::Static(self.w.puppet_p),
            blueprint_name: PUPPET_BLUEPRINT.to_string(),
            function_name: PUPPET_RUN.to_string(),
            args: script_manifest_args(&b.script()),
        }));
        self.log.push(format!("globalize with r{}", r));
    }

    fn call_named(&mut self, n: u32) {
        let args = script_manifest_args(&Script(vec![Op::Log { level: 2, message: "named".into() }]));
        self.ins.push(InstructionV2::CallMethod(CallMethod { address: ManifestGlobalAddress::Named(ManifestNamedAddress(n)), method_name: PUPPET_PEEK.to_string(), args }));
        self.log.push(format!("call n{}", n));
    }

    fn step_reservation(&mut self, g: &mut Gen) -> bool {
        if self.reservations.len() >= 3 {
            return false;
        }
        self.allocate();
        let r = self.reservations.len() - 1;
        if g.chance(1, 3) {
            // something in between
            self.withdraw(g);
        }
        self.globalize_call(r);
        self.reservations[r] = false;
        self.created_consumed += 1;
        if g.chance(2, 3) {
            self.call_named(self.named - 1);
        }
        true
    }

    fn step_blob(&mut self, g: &mut Gen, declared: bool) {
        let content = g.blob(24);
        let h = hash(&content);
        if declared {
            self.blobs.insert(h, content);
        }
        self.puppet_call(g, &[], &[], Some(h));
    }

    /// The planted faulty instruction; `false` when the history offers no place for it.
    fn plant(&mut self, g: &mut Gen, f: Fault) -> bool {
        match f {
            Fault::StaleBucket | Fault::FutureBucket => {
                let id = if f == Fault::StaleBucket {
                    if self.dead_buckets().is_empty() || g.chance(1, 2) {
                        // make one: a bucket that is put back (or deposited) right now
                        if self.live_buckets(true).is_empty() {
                            self.withdraw(g);
                            self.take(g);
                        }
                        if let Some(b) = self.live_buckets(true).last().copied() {
                            if g.bool() {
                                self.return_bucket(b);
                            } else {
                                self.deposit_bucket(g, b);
                            }
                        }
                    }
                    let d = self.dead_buckets();
                    if d.is_empty() {
                        return false;
                    }
                    *g.pick(&d) as u32
                } else {
                    self.buckets.len() as u32 + g.below(2) as u32
                };
                match g.below(4) {
                    0 => self.ins.push(InstructionV2::ReturnToWorktop(ReturnToWorktop { bucket_id: ManifestBucket(id) })),
                    1 => self.ins.push(call(self.w.accounts[1].address, ACCOUNT_TRY_DEPOSIT_OR_ABORT_IDENT, (ManifestBucket(id), Option::<ResourceOrNonFungible>::None))),
                    2 => self.ins.push(InstructionV2::CreateProofFromBucketOfAll(CreateProofFromBucketOfAll { bucket_id: ManifestBucket(id) })),
                    _ => {
                        if id < 250 {
                            self.puppet_call(g, &[id as usize], &[], None)
                        } else {
                            return false;
                        }
                    }
                }
            }
            Fault::SameBucketTwice => {
                let l = self.live_buckets(true);
                if l.is_empty() || l[0] >= 250 {
                    return false;
                }
                self.puppet_call(g, &[l[0], l[0]], &[], None);
            }
            Fault::StaleProof | Fault::FutureProof => {
                let id = if f == Fault::StaleProof {
                    if self.dead_proofs().is_empty() || g.chance(1, 2) {
                        // make one: a proof that is dropped right now (singly or by a bulk drop)
                        if self.live_proofs().is_empty() {
                            if self.live_buckets(false).is_empty() {
                                self.withdraw(g);
                                self.take(g);
                            }
                            self.new_proof(g);
                        }
                        if !self.live_proofs().is_empty() {
                            match g.below(3) {
                                0 => {
                                    self.drop_proof(g);
                                }
                                1 => {
                                    self.ins.push(InstructionV2::DropNamedProofs(DropNamedProofs));
                                    self.drop_all_named();
                                    self.log.push("drop_named_proofs".into());
                                }
                                _ => {
                                    self.ins.push(InstructionV2::DropAllProofs(DropAllProofs));
                                    self.drop_all_named();
                                    self.clear_auth_zone();
                                    self.signatures_dropped = true;
                                    self.log.push("drop_all_proofs".into());
                                }
                            }
                        }
                    }
                    let d = self.dead_proofs();
                    if d.is_empty() {
                        return false;
                    }
                    *g.pick(&d) as u32
                } else {
                    self.proofs.len() as u32 + g.below(2) as u32
                };
                match g.below(4) {
                    0 => self.ins.push(InstructionV2::DropProof(DropProof { proof_id: ManifestProof(id) })),
                    1 => self.ins.push(InstructionV2::CloneProof(CloneProof { proof_id: ManifestProof(id) })),
                    2 => self.ins.push(InstructionV2::PushToAuthZone(PushToAuthZone { proof_id: ManifestProof(id) })),
                    _ => {
                        if id < 250 {
                            self.puppet_call(g, &[], &[id as usize], None)
                        } else {
                            return false;
                        }
                    }
                }
            }
            Fault::StaleReservation | Fault::FutureReservation => {
                let id = if f == Fault::StaleReservation {
                    let d: Vec<usize> = (0..self.reservations.len()).filter(|i| !self.reservations[*i]).collect();
                    if d.is_empty() {
                        return false;
                    }
                    *g.pick(&d)
                } else {
                    self.reservations.len() + g.index(2)
                };
                self.globalize_call(id);
            }
            Fault::UnknownNamedAddress => {
                let n = self.named + g.below(2) as u32;
                self.call_named(n);
            }
            Fault::UndeclaredBlob => self.step_blob(g, false),
        }
        self.log.push(format!("^ {}", f.name()));
        true
    }

    fn finish(&mut self, g: &mut Gen) {
        // drop every proof, put every bucket back, deposit the worktop
        if !self.live_proofs().is_empty() || !self.auth_zone.is_empty() {
            self.ins.push(InstructionV2::DropAllProofs(DropAllProofs));
            self.drop_all_named();
            self.clear_auth_zone();
            self.signatures_dropped = true;
        }
        for b in self.live_buckets(false) {
            if g.bool() {
                self.return_bucket(b);
            } else {
                self.deposit_bucket(g, b);
            }
        }
        self.ins.push(call(self.w.accounts[1].address, ACCOUNT_TRY_DEPOSIT_BATCH_OR_ABORT_IDENT, (ManifestExpression::EntireWorktop, Option::<ResourceOrNonFungible>::None)));
    }
}

const BLOB_PLACE: [u8; 4] = [0xB1, 0x0B, 0xB1, 0x0B];

/// Replaces the byte array `BLOB_PLACE` inside a manifest value by a reference to the blob.
fn patch_blob(v: &mut ManifestValue, h: &Hash) -> bool {
    let is_place = match v {
        ManifestValue::Array { element_value_kind: ValueKind::U8, elements } => elements.len() == 4 && elements.iter().zip(BLOB_PLACE.iter()).all(|(e, b)| matches!(e, ManifestValue::U8 { value } if value == b)),
        _ => false,
    };
    if is_place {
        *v = ManifestValue::Custom { value: ManifestCustomValue::Blob(ManifestBlobRef(h.0)) };
        return true;
    }
    match v {
        ManifestValue::Tuple { fields } | ManifestValue::Enum { fields, .. } => fields.iter_mut().any(|f| patch_blob(f, h)),
        ManifestValue::Array { elements, .. } => elements.iter_mut().any(|f| patch_blob(f, h)),
        ManifestValue::Map { entries, .. } => entries.iter_mut().any(|(k, x)| patch_blob(k, h) || patch_blob(x, h)),
        _ => false,
    }
}

fn id_error(e: &RuntimeError) -> Option<&'static str> {
    match e {
        RuntimeError::ApplicationError(ApplicationError::TransactionProcessorError(t)) => match t {
            TransactionProcessorError::BucketNotFound(_) => Some("BucketNotFound"),
            TransactionProcessorError::ProofNotFound(_) => Some("ProofNotFound"),
            TransactionProcessorError::AddressReservationNotFound(_) => Some("AddressReservationNotFound"),
            TransactionProcessorError::AddressNotFound(_) => Some("AddressNotFound"),
            TransactionProcessorError::BlobNotFound(_) => Some("BlobNotFound"),
            _ => None,
        },
        _ => None,
    }
}

fn case(g: &mut Gen) -> Outcome {
    with_world(WORLD_KEY, no_genesis, build, |w| {
        let ext = w.ext::<Rc<Ext>>().clone();
        // stale ids are what a validator that forgets a consumption lets through: weighted up
        let fault = if g.bool() { Some(FAULTS[[0, 3, 5, 2, 1, 4, 6, 7, 8, 0, 3, 0, 3, 5, 2][g.index(15)]]) } else { None };
        let v2 = g.bool();
        let wref: &World = w;
        let mut s = St {
            w: wref,
            gp: ext.gp,
            ins: vec![call(FAUCET, "lock_fee", (dec!(5000),))],
            blobs: IndexMap::new(),
            wt: BTreeMap::new(),
            buckets: Vec::new(),
            proofs: Vec::new(),
            auth_zone: Vec::new(),
            reservations: Vec::new(),
            named: 0,
            log: Vec::new(),
            created_consumed: 0,
            res_list: vec![wref.fungibles[0].address, wref.fungibles[1].address, XRD],
            signatures_dropped: false,
        };
        let steps = 3 + g.below(14);
        let fault_at = g.below(steps + 1);
        let mut planted = false;
        for i in 0..=steps {
            if let Some(f) = fault {
                if i >= fault_at && !planted {
                    if s.plant(g, f) {
                        planted = true;
                        // no further random steps; the clean-up below still runs so that nothing else is wrong
                        break;
                    }
                }
            }
            if i == steps {
                break;
            }
            let _ = match g.weighted(&[4, 6, 3, 2, 4, 2, 2, 2, 2, 1, 2, 3, 2, 1]) {
                0 => {
                    s.withdraw(g);
                    true
                }
                1 => s.take(g),
                2 => {
                    let l = s.live_buckets(true);
                    if l.is_empty() {
                        false
                    } else {
                        let b = *g.pick(&l);
                        s.return_bucket(b);
                        true
                    }
                }
                3 => {
                    let l = s.live_buckets(true);
                    if l.is_empty() {
                        false
                    } else {
                        let b = *g.pick(&l);
                        s.deposit_bucket(g, b);
                        true
                    }
                }
                4 => s.new_proof(g),
                5 => s.clone_proof(g),
                6 => s.drop_proof(g),
                7 => s.push_proof(g),
                8 => {
                    if g.bool() {
                        s.pop_proof()
                    } else {
                        s.proof_from_auth_zone(g)
                    }
                }
                9 => {
                    s.bulk_drop(g);
                    true
                }
                10 => s.step_puppet(g),
                11 => s.step_reservation(g),
                12 => {
                    s.step_blob(g, true);
                    true
                }
                _ => s.take(g),
            };
        }
        s.finish(g);
        match fault {
            Some(f) if planted => g.label(f.name()),
            Some(_) => g.label("planned fault had no place (valid)"),
            None => g.label("valid by construction"),
        }
        let log = s.log.join(" ; ");
        let created_consumed = s.created_consumed;
        let (ins, blobs) = (std::mem::take(&mut s.ins), std::mem::take(&mut s.blobs));
        drop(s);

        // V1 when every instruction exists there, else V2
        let v1_ins: Option<Vec<InstructionV1>> = if v2 { None } else { ins.iter().map(|i| InstructionV1::try_from(i.clone()).ok()).collect() };
        let proofs = all_badges(w);
        let (accepted, run) = match v1_ins {
            Some(v1) => {
                g.label("TransactionManifestV1");
                let m = TransactionManifestV1 { instructions: v1, blobs, object_names: Default::default() };
                let verdict = vf_core::catch(|| StaticManifestInterpreter::new(ValidationRuleset::all(), &m).validate());
                match verdict {
                    Err(p) => return Outcome::fail("static validation panics", format!("{}\n{}", p, log)),
                    Ok(Err(_)) => (false, None),
                    Ok(Ok(())) => (true, Some(w.run(m, proofs))),
                }
            }
            None => {
                g.label("TransactionManifestV2");
                let m = TransactionManifestV2 { instructions: ins, blobs, children: Default::default(), object_names: Default::default() };
                let verdict = vf_core::catch(|| StaticManifestInterpreter::new(ValidationRuleset::all(), &m).validate());
                match verdict {
                    Err(p) => return Outcome::fail("static validation panics", format!("{}\n{}", p, log)),
                    Ok(Err(_)) => (false, None),
                    Ok(Ok(())) => (true, Some(w.run_any(m, proofs))),
                }
            }
        };
        g.sample(|| format!("{} fault {:?} (planted: {}): {}", if accepted { "ACCEPTED" } else { "REJECTED" }, fault, planted, log));
        if !accepted {
            g.label("statically rejected (not executed)");
            if !planted {
                // what the generator builds without a fault should be valid; over-rejection is not what
                // the property forbids, so it is counted (and must be 0 on a healthy tree), not failed
                g.label("built without a fault but statically rejected");
            }
            return Outcome::Pass;
        }
        let run = run.unwrap();
        g.label("statically accepted, executed");
        if let Some(p) = &run.panic {
            return Outcome::fail("host panic executing a statically accepted manifest", format!("{}\n{}", p, log));
        }
        if let Some(e) = run.failure() {
            if let Some(name) = id_error(e) {
                return Outcome::fail(format!("a statically accepted manifest fails at run time with TransactionProcessorError::{}", name), format!("{}\noutcome {}", log, run.outcome_string().chars().take(300).collect::<String>()));
            }
            g.label("executed: failed for another reason");
        } else if run.is_success() {
            g.label("executed: committed success");
            if created_consumed >= 3 {
                g.label("accepted, executed, >= 3 buckets / proofs / reservations created and consumed");
                g.nontrivial();
            }
        } else {
            g.label("executed: rejected / aborted");
        }
        Outcome::Pass
    })
}

pub fn engine_part() -> Part {
    Part::new("engine", 3000, 200_000, 2048, case)
}

pub fn check() -> vf_core::Check {
    let mut c = vf_manifest::c36::check();
    c.parts.push(engine_part());
    c.assumptions.retain(|a| !a.starts_with("static part only"));
    c
}
