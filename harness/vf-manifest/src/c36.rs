//! C36 Static manifest validation matches the bucket/proof lifecycle — static part (1).
//!
//! The generator (`mgen`) and the reference model (`lifecycle`) are public so that an engine-level
//! part (accepted manifests never fail at run time with the transaction processor's id errors) can
//! be added by a crate that has the engine: `generate_case` below returns everything it needs.

use crate::lifecycle::{self, FaultClass, ModelReport};
use crate::mgen::{self, Generated, Kind, Options};
use radix_common::prelude::*;
use radix_transactions::manifest::*;
use radix_transactions::prelude::*;
use radix_transactions::validation::*;
use vf_core::{catch, ensure, Check, Gen, Outcome, Part};

pub struct Case {
    pub generated: Generated,
    pub model: ModelReport,
}

/// The C36 domain: a manifest of any kind over the full instruction set; about half carry exactly
/// one planted lifecycle fault. `model` is the reference verdict.
pub fn generate_case(g: &mut Gen) -> Case {
    let opts = Options { inject_fault: true, deep_values: false, value_depth: 3, ..Options::default() };
    let generated = mgen::generate(g, &opts);
    let model = lifecycle::run_model(&lifecycle::view(&generated.manifest));
    Case { generated, model }
}

pub fn error_class(e: &ManifestValidationError) -> &'static str {
    match e {
        ManifestValidationError::DuplicateBlob(_) => "rejected: DuplicateBlob",
        ManifestValidationError::BlobNotRegistered(_) => "rejected: BlobNotRegistered",
        ManifestValidationError::BucketNotYetCreated(_) => "rejected: BucketNotYetCreated",
        ManifestValidationError::BucketAlreadyUsed(..) => "rejected: BucketAlreadyUsed",
        ManifestValidationError::BucketConsumedWhilstLockedByProof(..) => "rejected: BucketConsumedWhilstLockedByProof",
        ManifestValidationError::ProofNotYetCreated(_) => "rejected: ProofNotYetCreated",
        ManifestValidationError::ProofAlreadyUsed(..) => "rejected: ProofAlreadyUsed",
        ManifestValidationError::AddressReservationNotYetCreated(_) => "rejected: AddressReservationNotYetCreated",
        ManifestValidationError::AddressReservationAlreadyUsed(..) => "rejected: AddressReservationAlreadyUsed",
        ManifestValidationError::NamedAddressNotYetCreated(_) => "rejected: NamedAddressNotYetCreated",
        ManifestValidationError::ChildIntentNotRegistered(_) => "rejected: ChildIntentNotRegistered",
        ManifestValidationError::DanglingBucket(..) => "rejected: DanglingBucket",
        ManifestValidationError::DanglingAddressReservation(..) => "rejected: DanglingAddressReservation",
        ManifestValidationError::ArgsEncodeError(_) => "rejected: ArgsEncodeError",
        ManifestValidationError::ArgsDecodeError(_) => "rejected: ArgsDecodeError",
        ManifestValidationError::InstructionNotSupportedInTransactionIntent => "rejected: InstructionNotSupportedInTransactionIntent",
        ManifestValidationError::SubintentDoesNotEndWithYieldToParent => "rejected: SubintentDoesNotEndWithYieldToParent",
        ManifestValidationError::ProofCannotBePassedToAnotherIntent => "rejected: ProofCannotBePassedToAnotherIntent",
        ManifestValidationError::TooManyInstructions => "rejected: TooManyInstructions",
        ManifestValidationError::InvalidResourceConstraint => "rejected: InvalidResourceConstraint",
        ManifestValidationError::InstructionFollowingNextCallAssertionWasNotInvocation => "rejected: InstructionFollowingNextCallAssertionWasNotInvocation",
        ManifestValidationError::ManifestEndedWhilstExpectingNextCallAssertion => "rejected: ManifestEndedWhilstExpectingNextCallAssertion",
    }
}

#[derive(Clone, Copy, PartialEq, Eq)]
enum Ruleset {
    All,
    Cuttlefish,
    BabylonEquivalent,
    BabylonBasicValidator,
    ConfiguredV1Cuttlefish,
}

impl Ruleset {
    fn name(&self) -> &'static str {
        match self {
            Ruleset::All => "StaticManifestInterpreter(all)",
            Ruleset::Cuttlefish => "StaticManifestInterpreter(cuttlefish)",
            Ruleset::BabylonEquivalent => "StaticManifestInterpreter(babylon_equivalent)",
            Ruleset::BabylonBasicValidator => "BabylonBasicValidator",
            Ruleset::ConfiguredV1Cuttlefish => "validate_instructions_v1(cuttlefish config)",
        }
    }
    /// The legacy rulesets document that they only track ids (no blobs, no left-overs, no addresses
    /// in the command part, nothing about manifest kinds).
    fn legacy(&self) -> bool {
        matches!(self, Ruleset::BabylonEquivalent | Ruleset::BabylonBasicValidator)
    }
}

fn validate_with(m: &AnyManifest, r: Ruleset) -> Option<Result<Result<(), String>, String>> {
    let m = m.clone();
    match r {
        Ruleset::All => Some(catch(move || m.validate(ValidationRuleset::all()).map_err(|e| error_class(&e).to_string()))),
        Ruleset::Cuttlefish => Some(catch(move || m.validate(ValidationRuleset::cuttlefish()).map_err(|e| error_class(&e).to_string()))),
        Ruleset::BabylonEquivalent => {
            // a V1-era ruleset: production code never applies it to V2 instruction sets
            // (transaction_validator_v2 always uses `ValidationRuleset::cuttlefish()`)
            if !matches!(m, AnyManifest::V1(_) | AnyManifest::SystemV1(_)) {
                return None;
            }
            Some(catch(move || m.validate(ValidationRuleset::babylon_equivalent()).map_err(|e| error_class(&e).to_string())))
        }
        Ruleset::BabylonBasicValidator => {
            let instructions = match &m {
                AnyManifest::V1(x) => x.instructions.clone(),
                // the legacy validator knows neither preallocated addresses nor children
                _ => return None,
            };
            Some(catch(move || {
                let v = TransactionValidator::new_with_static_config_network_agnostic(TransactionValidationConfig::babylon());
                v.validate_instructions_basic_v1(&instructions).map_err(|e| format!("rejected: {:?}", e).split('(').next().unwrap().to_string())
            }))
        }
        Ruleset::ConfiguredV1Cuttlefish => {
            let (instructions, blobs) = match &m {
                AnyManifest::V1(x) => (x.instructions.clone(), x.blobs.clone()),
                _ => return None,
            };
            Some(catch(move || {
                let v = TransactionValidator::new_with_static_config_network_agnostic(TransactionValidationConfig::cuttlefish());
                v.validate_instructions_v1(&instructions, &blobs).map_err(|e| format!("rejected: {:?}", e).chars().take(60).collect())
            }))
        }
    }
}

fn render(m: &AnyManifest) -> String {
    let v = lifecycle::view(m);
    let mut s = format!("{} [{} blobs, {} children, {} preallocated]\n", v.kind_name, v.blobs.len(), v.children, v.preallocated);
    for (i, ins) in v.instructions.iter().enumerate() {
        let mut line = format!("{:?}", ins);
        if line.len() > 220 {
            let mut cut = 220;
            while !line.is_char_boundary(cut) {
                cut -= 1;
            }
            line.truncate(cut);
            line.push('…');
        }
        s.push_str(&format!("  {:2}: {}\n", i, line));
    }
    s
}

fn static_case(g: &mut Gen) -> Outcome {
    let Case { generated, model } = generate_case(g);
    let m = &generated.manifest;
    g.label(generated.kind.name());
    match generated.fault {
        Some(f) => g.label(f.name()),
        None => g.label(if generated.fault_not_applicable { "planned fault had no place (valid)" } else { "valid by construction" }),
    }
    g.sample(|| {
        format!(
            "planted fault: {:?}; model faults: {:?}\n{}",
            generated.fault,
            model.faults.iter().map(|f| (f.class.name(), f.at)).collect::<Vec<_>>(),
            render(m)
        )
    });

    // harness self-check: generator and model must agree on what was planted
    ensure!(
        generated.fault.is_some() == model.has_fault(),
        "HARNESS: generator and lifecycle model disagree",
        "planted {:?}, model reports {:?}\n{}",
        generated.fault,
        model.faults,
        render(m)
    );

    let mut accepted_by_all = false;
    for r in [Ruleset::All, Ruleset::Cuttlefish, Ruleset::BabylonEquivalent, Ruleset::BabylonBasicValidator, Ruleset::ConfiguredV1Cuttlefish] {
        let Some(res) = validate_with(m, r) else { continue };
        g.count("validations", 1);
        let verdict = match res {
            Ok(v) => v,
            Err(p) => return Outcome::fail(format!("{} panics", r.name()), format!("{}\n{}", p, render(m))),
        };
        // faults this ruleset is documented to look at
        let relevant: Vec<&lifecycle::Fault> = model
            .faults
            .iter()
            .filter(|f| if r.legacy() { f.class.is_core_id_fault() || (f.class == FaultClass::NamedAddressNotCreated && f.in_args) } else { true })
            .collect();
        match verdict {
            Ok(()) => {
                if r == Ruleset::All {
                    accepted_by_all = true;
                }
                if let Some(f) = relevant.first() {
                    return Outcome::fail(
                        format!("{} accepts a manifest with a lifecycle fault: {}", r.name(), f.class.name()),
                        format!("fault at instruction {:?}: {} ({})\n{}", f.at, f.class.name(), f.detail, render(m)),
                    );
                }
            }
            Err(class) => {
                if relevant.is_empty() && !(r.legacy() && model.has_fault()) {
                    // model sees nothing wrong: logged by class, reviewed while building, not a violation
                    g.label("model-fine-but-rejected");
                    if r == Ruleset::All {
                        g.label(match class.as_str() {
                            "rejected: ProofCannotBePassedToAnotherIntent" => "model-fine-but-rejected: ProofCannotBePassedToAnotherIntent",
                            "rejected: InvalidResourceConstraint" => "model-fine-but-rejected: InvalidResourceConstraint",
                            "rejected: ArgsEncodeError" => "model-fine-but-rejected: ArgsEncodeError",
                            "rejected: ArgsDecodeError" => "model-fine-but-rejected: ArgsDecodeError",
                            "rejected: DuplicateBlob" => "model-fine-but-rejected: DuplicateBlob",
                            "rejected: InstructionFollowingNextCallAssertionWasNotInvocation" => "model-fine-but-rejected: next-call assertion not followed by a call",
                            "rejected: ManifestEndedWhilstExpectingNextCallAssertion" => "model-fine-but-rejected: next-call assertion at the end",
                            _ => "model-fine-but-rejected: a lifecycle error class (model gap?)",
                        });
                    }
                }
            }
        }
    }
    if accepted_by_all {
        g.label("accepted");
        if model.buckets_consumed + model.proofs_consumed >= 3 {
            g.label("accepted with >= 3 buckets/proofs created and consumed");
            g.nontrivial();
        }
    } else {
        g.label("rejected");
        if generated.fault.map(|f| f.is_single_stale_id()).unwrap_or(false) && model.faults.len() == 1 {
            g.label("rejected, only fault a single stale id");
            g.nontrivial();
        }
    }
    Outcome::Pass
}

fn is_v2_only(i: &InstructionV2) -> bool {
    InstructionV1::try_from(i.clone()).is_err()
}

/// "V1 using V2-only instructions": an instruction list with a V2-only instruction cannot become a
/// V1 manifest, neither through the binary decoder nor through the compiler.
fn v1_rejects_v2(g: &mut Gen) -> Outcome {
    let kind = if g.bool() { Kind::V2 } else { Kind::SubintentV2 };
    let generated = mgen::generate(g, &Options { kind: Some(kind), inject_fault: false, deep_values: false, names_with_escapes: false, value_depth: 2, max_steps: 10, ..Options::default() });
    let v = lifecycle::view(&generated.manifest);
    let v2_only = v.instructions.iter().filter(|i| is_v2_only(i)).count();
    g.label(if v2_only > 0 { "has V2-only instructions" } else { "V1-compatible instructions only" });
    if v2_only > 0 {
        g.nontrivial();
    }
    g.sample(|| render(&generated.manifest));
    let ins = v.instructions.clone();
    let decoded = catch(move || {
        let bytes = manifest_encode(&ins).expect("instructions encode");
        manifest_decode::<Vec<InstructionV1>>(&bytes).is_ok()
    });
    let decoded = match decoded {
        Ok(d) => d,
        Err(p) => return Outcome::fail("decoding V2 instructions as InstructionV1 panics", format!("{}\n{}", p, render(&generated.manifest))),
    };
    ensure!(
        decoded == (v2_only == 0),
        if decoded { "V2-only instructions decode as InstructionV1" } else { "V1-compatible instructions do not decode as InstructionV1" },
        "{} V2-only instructions, decoded as Vec<InstructionV1>: {}\n{}",
        v2_only,
        decoded,
        render(&generated.manifest)
    );
    // through the compiler (text produced by the decompiler; statically valid by construction)
    let network = NetworkDefinition::simulator();
    let m = generated.manifest.clone();
    let text = match catch(|| decompile_any(&m, &network)) {
        Ok(Ok(t)) => t,
        _ => return Outcome::Pass, // C30's business
    };
    let blobs = match &generated.manifest {
        AnyManifest::V2(x) => x.blobs.clone(),
        AnyManifest::SubintentV2(x) => x.blobs.clone(),
        _ => unreachable!(),
    };
    let t2 = text.clone();
    let compiled = catch(move || compile_any_manifest(&t2, ManifestKind::V1, &network, BlobProvider::new_with_prehashed_blobs(blobs)).is_ok());
    let compiled = match compiled {
        Ok(c) => c,
        Err(p) => return Outcome::fail("compiling a V2 text as V1 panics", format!("{}\n{}", p, text)),
    };
    if v2_only > 0 || v.children > 0 {
        ensure!(!compiled, "a text with V2-only instructions compiles as a V1 manifest", "{} V2-only instructions, {} children:\n{}", v2_only, v.children, text);
    }
    Outcome::Pass
}

pub fn check() -> Check {
    Check::new(
        "C36",
        "Static manifest validation matches the bucket/proof lifecycle",
        "part static: manifests of all four kinds from the typed generator (every instruction variant, ids allocated consistently); about half carry exactly one planted lifecycle fault (stale / future bucket, proof, reservation, named address; same bucket twice; bucket consumed under a live proof; undeclared blob / child; dangling bucket / reservation; subintent without final yield; parent-only instruction in a transaction manifest). An independent lifecycle model decides whether a fault is present; every ruleset (interpreter all / cuttlefish / babylon_equivalent, BabylonBasicValidator, validate_instructions_v1) is run: accepted => no fault of the classes that ruleset looks at. Rejections of fault-free manifests are counted by class, not failed. Non-trivial = accepted with >= 3 buckets/proofs created and consumed, or rejected with a single stale id as the only fault. part v1_v2only: V2 instruction lists with V2-only instructions must not decode as InstructionV1 nor compile as a V1 manifest. Distinct = distinct decoded choice sequences.",
    )
    .assume("static part only: the run-time clause (accepted manifests never fail with the transaction processor's id errors) needs the engine and is not decided here")
    .assume("legacy rulesets (BabylonBasicValidator, babylon_equivalent) are only held to the id rules they document: no blob, left-over, manifest-kind or command-part address checks")
    .part(Part::new("static", 3_000_000, 100_000_000, 1536, static_case))
    .part(Part::new("v1_v2only", 100_000, 3_000_000, 1024, v1_rejects_v2))
    .min_nontrivial_pct(15.0)
}
