//! C11 No transaction can crash the engine.
//!
//! Parts:
//!  * `calls`     — 1-5 calls of catalogue entries (every function / method of every blueprint of
//!                  every package stored in the ledger), grouped into 1-5 committed test
//!                  transactions (user or system, with or without the proofs that open the
//!                  protected methods); arguments schema-directed / near-valid / raw.
//!  * `internal`  — the same catalogue entries called by blueprint code (puppet) on buckets, proofs,
//!                  vaults it owns and on its auth zone, with Scrypto-encoded arguments.
//!  * `notarized` — notarized V1 transactions: byte mutation of the whole payload, and byte
//!                  mutation of the instruction list re-signed, through prepare → validate → execute.
//!
//! Oracle (all parts): a receipt comes back (no host panic), no failure is a
//! `NativeRuntimeError::Trap` (a caught panic of native blueprint code), and after every commit the
//! harness's raw scan finds supply == Σ vaults, no negative balance, no id in two vaults; on a
//! sample of cases the C05 well-formedness scan and the repository's kernel / role-assignment
//! checkers accept the final ledger.

use crate::args::*;
use crate::env::*;
use radix_engine::errors::*;
use radix_engine::system::system_type_checker::TypeCheckError;
use radix_engine_interface::blueprints::test_utils::TEST_UTILS_PANIC_IDENT;
use scrypto_test::prelude::*;
use std::collections::{BTreeMap, BTreeSet};
use std::rc::Rc;
use vf_core::{Check, Failure, Gen, Outcome, Part};
use radix_transactions::manifest::*;
use vf_sbor::valgen::mutate_bytes;
use vf_world::*;

// ------------------------------------------------------------------------------------------------
// judging a run

pub struct Verdict {
    pub class: &'static str,
    /// the failing (or last) call got past input-schema validation and auth
    pub reached: bool,
    pub committed: bool,
}

fn panic_location() -> String {
    // vf-core keeps the location of the last panic of this thread; `panic_message` appends it
    let b: Box<dyn std::any::Any + Send> = Box::new("");
    let s = vf_core::panic_message(&b);
    s.rsplit(" @ ").next().unwrap_or("").to_string()
}

fn short_loc(p: &str) -> String {
    let loc = p.rsplit(" @ ").next().unwrap_or(p);
    loc.trim_start_matches("/repo/").to_string()
}

pub fn classify_error(e: &RuntimeError) -> (&'static str, bool) {
    match e {
        RuntimeError::SystemModuleError(SystemModuleError::AuthError(_)) => ("failed: auth", false),
        RuntimeError::SystemModuleError(SystemModuleError::CostingError(_)) => ("failed: costing", false),
        RuntimeError::SystemModuleError(SystemModuleError::TransactionLimitsError(_)) => ("failed: transaction limits", false),
        RuntimeError::SystemModuleError(SystemModuleError::EventError(_)) => ("failed: event error", true),
        RuntimeError::SystemError(SystemError::TypeCheckError(t)) => match t {
            TypeCheckError::BlueprintPayloadValidationError(_, BlueprintPayloadIdentifier::Function(_, InputOrOutput::Input), _) => ("failed: input schema", false),
            TypeCheckError::BlueprintPayloadValidationError(_, BlueprintPayloadIdentifier::Function(_, InputOrOutput::Output), _) => ("failed: output schema", true),
            TypeCheckError::BlueprintPayloadDoesNotExist(..) => ("failed: no such function", false),
            _ => ("failed: type check (state / other)", true),
        },
        RuntimeError::SystemError(_) => ("failed: system error", false),
        RuntimeError::SystemUpstreamError(_) => ("failed: upstream (function lookup / decode)", false),
        RuntimeError::KernelError(_) => ("failed: kernel error", false),
        RuntimeError::VmError(VmError::Native(_)) => ("failed: native vm", true),
        RuntimeError::VmError(_) => ("failed: wasm vm", true),
        RuntimeError::ApplicationError(ApplicationError::TransactionProcessorError(_)) => ("failed: transaction processor", false),
        RuntimeError::ApplicationError(ApplicationError::InputDecodeError(_)) => ("failed: blueprint input decode", true),
        RuntimeError::ApplicationError(ApplicationError::PanicMessage(_)) => ("failed: application panic message", true),
        RuntimeError::ApplicationError(_) => ("failed: blueprint error", true),
        RuntimeError::FinalizationCostingError(_) => ("failed: finalization costing", false),
    }
}

/// The oracle on one executed transaction. `allow_test_panic`: the transaction calls
/// `TestUtils::panic`, whose only purpose is to panic.
pub fn judge(run: &Run, w: &World, route: &str, allow_test_panic: bool, describe: &dyn Fn() -> String) -> Result<Verdict, Failure> {
    if let Some(p) = &run.panic {
        if p.starts_with("VALIDATION: ") {
            return Ok(Verdict { class: "rejected by validation", reached: false, committed: false });
        }
        if p.contains("Could not convert manifest into executable") || p.contains("Transaction should be convertible to executable") {
            // the simulator's own assertion on `prepare` (payload too deep / too large for a test transaction)
            return Ok(Verdict { class: "not preparable (simulator assertion)", reached: false, committed: false });
        }
        return Err(Failure { signature: format!("host panic while executing a {} transaction: {}", route, short_loc(p)), message: format!("{}\n{}", p, describe()) });
    }
    let receipt = run.receipt();
    let (class, reached, committed) = match &receipt.result {
        TransactionResult::Commit(c) => match &c.outcome {
            TransactionOutcome::Success(_) => ("committed success", true, true),
            TransactionOutcome::Failure(e) => {
                if let RuntimeError::VmError(VmError::Native(NativeRuntimeError::Trap { export_name, error, .. })) = e {
                    let loc = panic_location();
                    if allow_test_panic && export_name == TEST_UTILS_PANIC_IDENT {
                        ("failed: TestUtils::panic (deliberate)", true, true)
                    } else if [PUPPET_RUN, PUPPET_ACT, PUPPET_PEEK, PUPPET_RECURSE].contains(&export_name.as_str()) && !loc.contains("radix-engine") {
                        return Err(Failure { signature: format!("HARNESS: puppet code panicked at {}", short_loc(&loc)), message: format!("{}\n{}", error, describe()) });
                    } else {
                        return Err(Failure {
                            signature: format!("native blueprint code panicked (Trap) in export {} at {}", export_name, short_loc(&loc)),
                            message: format!("route {}: {}\n{}", route, error, describe()),
                        });
                    }
                } else {
                    let (c, r) = classify_error(e);
                    (c, r, true)
                }
            }
        },
        TransactionResult::Reject(_) => ("rejected", false, false),
        TransactionResult::Abort(_) => ("aborted", false, false),
    };
    if committed {
        let t = Totals::scan(w.db());
        let problems = t.supply_problems();
        if !problems.is_empty() {
            return Err(Failure {
                signature: format!("after a committed {} transaction: supply != sum of vaults / vault structure broken", route),
                message: format!("{:?}\noutcome {}\n{}", &problems[..problems.len().min(4)], run.outcome_string(), describe()),
            });
        }
    }
    Ok(Verdict { class, reached, committed })
}

/// Development aid: `VF_E_DEBUG=<part of a class name>` prints the cases of that class to stderr.
pub fn debug_class(class: &str, describe: &dyn Fn() -> String) {
    if let Ok(d) = std::env::var("VF_E_DEBUG") {
        if class.contains(&d) {
            eprintln!("[{}] {}\n", class, describe());
        }
    }
}

/// End-of-case second opinions (sampled): the C05 scan and the repository's checkers.
pub fn deep_check(w: &World, describe: &dyn Fn() -> String) -> Result<(), Failure> {
    let scan = vf_eng_c::scan::scan_ledger(w.db(), &vf_eng_c::scan::ScanOptions { validate_only: None });
    if let Some(p) = scan.problems.first() {
        return Err(Failure { signature: format!("stored ledger not well-formed after the history: {}", p.class), message: format!("{}\n{}", p.detail, describe()) });
    }
    if let Err(e) = vf_eng_c::scan::repo_checkers(w.db()) {
        let class = if e.starts_with("checker panicked") { "the repository's database checkers panic on the committed state" } else { "the repository's database checkers reject the committed state" };
        return Err(Failure { signature: class.to_string(), message: format!("{}\n{}", e, describe()) });
    }
    Ok(())
}

// ------------------------------------------------------------------------------------------------
// manifests

#[derive(Default, Clone)]
pub struct MB {
    pub ins: Vec<InstructionV1>,
    pub blobs: IndexMap<Hash, Vec<u8>>,
    pub bases: Bases,
    spent: BTreeMap<(usize, ResourceAddress), Decimal>,
    taken_ids: BTreeSet<(ResourceAddress, NonFungibleLocalId)>,
    pub scaffold_may_fail: bool,
    pub calls_test_panic: bool,
    pub log: Vec<String>,
}

fn call_method(address: impl Into<GlobalAddress>, method: &str, args: impl ManifestEncode) -> InstructionV1 {
    let a: GlobalAddress = address.into();
    InstructionV1::CallMethod(CallMethod { address: ManifestGlobalAddress::Static(a), method_name: method.to_string(), args: manifest_decode(&manifest_encode(&args).unwrap()).unwrap() })
}

impl MB {
    pub fn lock_fee(&mut self) {
        self.ins.push(call_method(FAUCET, "lock_fee", (dec!(5000),)));
    }

    /// Proofs that open every `Gate::Badge` role, the pool / locker / access-controller roles and
    /// the validator's owner role.
    pub fn auth_proofs(&mut self, w: &World, ext: &Ext) {
        self.ins.push(call_method(w.accounts[0].address, ACCOUNT_CREATE_PROOF_OF_AMOUNT_IDENT, (w.badge, dec!(1))));
        self.ins.push(call_method(w.accounts[0].address, ACCOUNT_CREATE_PROOF_OF_NON_FUNGIBLES_IDENT, (VALIDATOR_OWNER_BADGE, indexset!(ext.validator_badge_id.clone()))));
        self.log.push("auth proofs (world badge, validator owner badge)".into());
    }

    pub fn scaffold(&mut self, g: &mut Gen, w: &World, ext: &Ext, totals: &Totals, needs: &Needs) {
        for b in &needs.buckets {
            let acct = w.accounts[b.acct].address;
            let (bal, ids) = account_holding(ext, totals, b.acct, &b.res);
            match ext.res_info(&b.res).map(|i| i.kind.clone()) {
                Some(ResKind::NonFungible) => {
                    let avail: BTreeSet<NonFungibleLocalId> = ids.into_iter().filter(|i| !self.taken_ids.contains(&(b.res, i.clone()))).collect();
                    let take = resolve_ids(g, b.amount, &avail);
                    if b.amount == Amount::TooMuch {
                        self.scaffold_may_fail = true;
                    }
                    if !take.is_empty() {
                        self.ins.push(call_method(acct, ACCOUNT_WITHDRAW_NON_FUNGIBLES_IDENT, (b.res, take.clone())));
                    }
                    for i in &take {
                        self.taken_ids.insert((b.res, i.clone()));
                    }
                    self.log.push(format!("bucket{} = {} ids of {} from A{}", self.bases.bucket, take.len(), ext.res_info(&b.res).map(|i| i.name).unwrap_or("?"), b.acct));
                    self.ins.push(InstructionV1::TakeNonFungiblesFromWorktop(TakeNonFungiblesFromWorktop { resource_address: b.res, ids: take }));
                }
                other => {
                    let div = match other {
                        Some(ResKind::Fungible { divisibility }) => divisibility,
                        _ => 18,
                    };
                    let spent = self.spent.get(&(b.acct, b.res)).copied().unwrap_or(Decimal::ZERO);
                    let left = bal.checked_sub(spent).unwrap_or(Decimal::ZERO).max(Decimal::ZERO);
                    let amt = resolve_amount(g, b.amount, left, div);
                    if b.amount == Amount::TooMuch {
                        self.scaffold_may_fail = true;
                    }
                    if amt.is_positive() {
                        self.ins.push(call_method(acct, ACCOUNT_WITHDRAW_IDENT, (b.res, amt)));
                        self.spent.insert((b.acct, b.res), spent.checked_add(amt).unwrap_or(spent));
                    }
                    self.log.push(format!("bucket{} = {} of {} from A{}", self.bases.bucket, amt, ext.res_info(&b.res).map(|i| i.name).unwrap_or("?"), b.acct));
                    self.ins.push(InstructionV1::TakeFromWorktop(TakeFromWorktop { resource_address: b.res, amount: amt }));
                }
            }
            self.bases.bucket += 1;
        }
        for p in &needs.proofs {
            let acct = w.accounts[p.acct].address;
            let (bal, ids) = account_holding(ext, totals, p.acct, &p.res);
            match ext.res_info(&p.res).map(|i| i.kind.clone()) {
                Some(ResKind::NonFungible) => {
                    let avail: BTreeSet<NonFungibleLocalId> = ids.into_iter().filter(|i| !self.taken_ids.contains(&(p.res, i.clone()))).collect();
                    let take = resolve_ids(g, p.amount, &avail);
                    if take.is_empty() || p.amount == Amount::TooMuch {
                        self.scaffold_may_fail = true;
                    }
                    self.log.push(format!("proof{} = {} ids of {} in A{}", self.bases.proof, take.len(), ext.res_info(&p.res).map(|i| i.name).unwrap_or("?"), p.acct));
                    self.ins.push(call_method(acct, ACCOUNT_CREATE_PROOF_OF_NON_FUNGIBLES_IDENT, (p.res, take)));
                }
                other => {
                    let div = match other {
                        Some(ResKind::Fungible { divisibility }) => divisibility,
                        _ => 18,
                    };
                    let spent = self.spent.get(&(p.acct, p.res)).copied().unwrap_or(Decimal::ZERO);
                    let left = bal.checked_sub(spent).unwrap_or(Decimal::ZERO).max(Decimal::ZERO);
                    let amt = resolve_amount(g, p.amount, left, div);
                    if !amt.is_positive() || p.amount == Amount::TooMuch {
                        self.scaffold_may_fail = true;
                    }
                    self.log.push(format!("proof{} = {} of {} in A{}", self.bases.proof, amt, ext.res_info(&p.res).map(|i| i.name).unwrap_or("?"), p.acct));
                    self.ins.push(call_method(acct, ACCOUNT_CREATE_PROOF_OF_AMOUNT_IDENT, (p.res, amt)));
                }
            }
            self.ins.push(InstructionV1::PopFromAuthZone(PopFromAuthZone));
            self.bases.proof += 1;
        }
        for (p, bp) in &needs.reservations {
            self.ins.push(InstructionV1::AllocateGlobalAddress(AllocateGlobalAddress { package_address: *p, blueprint_name: bp.clone() }));
            self.bases.reservation += 1;
            self.bases.named += 1;
        }
        for b in &needs.blobs {
            self.blobs.insert(hash(b), b.clone());
        }
    }

    pub fn manifest(&self) -> TransactionManifestV1 {
        TransactionManifestV1 { instructions: self.ins.clone(), blobs: self.blobs.clone(), object_names: Default::default() }
    }
    pub fn system_manifest(&self) -> SystemTransactionManifestV1 {
        SystemTransactionManifestV1 { instructions: self.ins.clone(), blobs: self.blobs.clone(), preallocated_addresses: vec![], object_names: Default::default() }
    }
}

/// Picks a catalogue entry, a receiver and arguments; appends scaffolding + the call.
/// Returns the label of the target.
pub fn add_call(g: &mut Gen, w: &World, ext: &Ext, totals: &Totals, mb: &mut MB) -> &'static str {
    // two-level choice so that small blueprints are not drowned by the resource managers' many methods
    let mut t: &Target = &ext.targets[0];
    for _ in 0..4 {
        t = if g.chance(2, 3) {
            let keys: Vec<&(PackageAddress, String)> = ext.by_blueprint.keys().collect();
            let k = keys[g.index(keys.len())];
            let v = &ext.by_blueprint[k];
            &ext.targets[v[g.index(v.len())]]
        } else {
            &ext.targets[g.index(ext.targets.len())]
        };
        // methods of blueprints without a global instance (buckets, proofs, worktop, auth zone, plain
        // vault methods) can only meet a wrong-blueprint receiver here; part `internal` calls them
        // properly, so they are taken less often
        let addressable = match t.receiver {
            None => true,
            Some((_, true)) => true,
            Some(_) => t.module != Module::Main || ext.globals.get(&(t.package, t.blueprint.clone())).map(|v| !v.is_empty()).unwrap_or(false),
        };
        if addressable || g.chance(1, 4) {
            break;
        }
    }
    let mode = match g.weighted(&[13, 4, 3]) {
        0 => Mode::Typed,
        1 => Mode::Mutant,
        _ => Mode::Raw,
    };
    // receiver
    let key = (t.package, t.blueprint.clone());
    let mut receiver: Option<GlobalAddress> = None;
    let mut direct: Option<InternalAddress> = None;
    let mut receiver_kind = "function";
    if let Some((normal, direct_ok)) = t.receiver {
        if direct_ok && (!normal || g.chance(2, 3)) {
            direct = Some(*g.pick(&ext.vaults));
            receiver_kind = "direct vault access";
        } else {
            let own: &[GlobalAddress] = match t.module {
                Module::Main => ext.globals.get(&key).map(|v| v.as_slice()).unwrap_or(&[]),
                // module methods exist on every global object
                _ => &[],
            };
            if t.module != Module::Main {
                let mut all: Vec<GlobalAddress> = ext.components.clone();
                all.extend(ext.resources.iter().map(|r| GlobalAddress::from(r.address)));
                all.extend(ext.packages.iter().map(|p| GlobalAddress::from(*p)));
                receiver = Some(*g.pick(&all));
                receiver_kind = "module of a global object";
            } else if !own.is_empty() && g.chance(7, 8) {
                // prefer the instances the world set up (they hold something)
                let preferred: Vec<GlobalAddress> = own
                    .iter()
                    .copied()
                    .filter(|a| {
                        let n = a.as_node_id();
                        w.accounts.iter().any(|x| x.address.as_node_id() == n)
                            || ext.resources.iter().any(|r| r.address.as_node_id() == n)
                            || [ext.one_pool, ext.two_pool, ext.multi_pool, ext.validator, ext.access_controller, ext.locker, ext.identity].iter().any(|c| c.as_node_id() == n)
                    })
                    .collect();
                receiver = Some(if !preferred.is_empty() && g.chance(3, 4) { *g.pick(&preferred) } else { *g.pick(own) });
                receiver_kind = "instance of the blueprint";
            } else {
                receiver = Some(*g.pick(&ext.components));
                receiver_kind = "wrong-blueprint receiver";
            }
        }
    }
    let mut ga = gen_args(g, ext, t, mode);
    let schema = t.input.and_then(|(h, _)| ext.schema(&t.package, &h));
    let mut sub = Subst::new(ext, w, t, receiver.as_ref(), mb.bases);
    {
        let s = if ga.mode == Mode::Raw { None } else { schema.as_ref().map(|s| s.v1()) };
        sub.subst(g, &mut ga.node, s, t.input.map(|(_, id)| id));
    }
    let needs = sub.needs;
    let args = match node_to_manifest_value(&ga.node) {
        Some(v) => v,
        None => {
            mb.log.push(format!("{}: generated payload does not decode as a manifest value, replaced by ()", t.label));
            ManifestValue::Tuple { fields: vec![] }
        }
    };
    mb.scaffold(g, w, ext, totals, &needs);
    let mut name = t.ident.clone();
    if g.chance(1, 40) {
        name = g.pick(&ext.targets).ident.clone();
    }
    let ins = match (t.receiver, direct, receiver) {
        (None, _, _) => {
            let bp = if g.chance(1, 40) { g.pick(&ext.targets).blueprint.clone() } else { t.blueprint.clone() };
            InstructionV1::CallFunction(CallFunction { package_address: ManifestPackageAddress::Static(t.package), blueprint_name: bp, function_name: name, args })
        }
        (_, Some(v), _) => InstructionV1::CallDirectVaultMethod(CallDirectVaultMethod { address: v, method_name: name, args }),
        (_, _, Some(r)) => {
            let address = ManifestGlobalAddress::Static(r);
            match t.module {
                Module::Main => InstructionV1::CallMethod(CallMethod { address, method_name: name, args }),
                Module::Metadata => InstructionV1::CallMetadataMethod(CallMetadataMethod { address, method_name: name, args }),
                Module::Royalty => InstructionV1::CallRoyaltyMethod(CallRoyaltyMethod { address, method_name: name, args }),
                Module::RoleAssignment => InstructionV1::CallRoleAssignmentMethod(CallRoleAssignmentMethod { address, method_name: name, args }),
            }
        }
        _ => unreachable!(),
    };
    if t.package == TEST_UTILS_PACKAGE {
        mb.calls_test_panic = true;
    }
    g.label(match ga.mode {
        Mode::Typed => "args: schema-directed",
        Mode::Mutant => "args: near-valid mutant",
        Mode::Raw => "args: raw value",
    });
    g.label(intern(&format!("receiver: {}", receiver_kind)));
    mb.log.push(format!(
        "CALL {}{} [{}{}] on {} args {}",
        t.label,
        if t.native { "" } else { " (wasm)" },
        match ga.mode {
            Mode::Typed => "typed",
            Mode::Mutant => "mutant: ",
            Mode::Raw => "raw",
        },
        ga.mutation.unwrap_or(""),
        match (&direct, &receiver) {
            (Some(v), _) => format!("vault {}", hex::encode(&v.as_node_id().0[..6])),
            (_, Some(r)) => format!("{} {}", receiver_kind, hex::encode(&r.as_node_id().0[..6])),
            _ => "-".to_string(),
        },
        render_node(&ga.node)
    ));
    mb.ins.push(ins);
    t.label
}

/// A non-call instruction with live arguments (worktop, auth zone, proofs): "any instructions".
pub fn add_instruction(g: &mut Gen, _w: &World, ext: &Ext, totals: &Totals, mb: &mut MB) -> &'static str {
    let r = g.pick(&ext.resources).clone();
    let res = r.address;
    let fungible = matches!(r.kind, ResKind::Fungible { .. });
    let amount = match g.weighted(&[4, 2, 1, 1]) {
        0 => dec!(1),
        1 => Decimal::from(g.below(20)),
        2 => Decimal::ZERO,
        _ => dec!("0.5"),
    };
    let ids: Vec<NonFungibleLocalId> = {
        let acct = ext.pick_holder(g, &res);
        let (_, ids) = account_holding(ext, totals, acct, &res);
        let mut v: Vec<NonFungibleLocalId> = ids.into_iter().take(1 + g.index(3)).collect();
        if res == VALIDATOR_OWNER_BADGE {
            v = vec![ext.validator_badge_id.clone()];
        }
        v
    };
    let (ins, label): (InstructionV1, &'static str) = match g.below(16) {
        0 | 1 | 2 => (InstructionV1::CreateProofFromAuthZoneOfAmount(CreateProofFromAuthZoneOfAmount { resource_address: res, amount }), "instruction: CREATE_PROOF_FROM_AUTH_ZONE_OF_AMOUNT"),
        3 | 4 => (InstructionV1::CreateProofFromAuthZoneOfNonFungibles(CreateProofFromAuthZoneOfNonFungibles { resource_address: res, ids }), "instruction: CREATE_PROOF_FROM_AUTH_ZONE_OF_NON_FUNGIBLES"),
        5 | 6 => (InstructionV1::CreateProofFromAuthZoneOfAll(CreateProofFromAuthZoneOfAll { resource_address: res }), "instruction: CREATE_PROOF_FROM_AUTH_ZONE_OF_ALL"),
        7 => (InstructionV1::PopFromAuthZone(PopFromAuthZone), "instruction: POP_FROM_AUTH_ZONE"),
        8 => (InstructionV1::DropAuthZoneRegularProofs(DropAuthZoneRegularProofs), "instruction: DROP_AUTH_ZONE_REGULAR_PROOFS"),
        9 => (InstructionV1::DropAuthZoneSignatureProofs(DropAuthZoneSignatureProofs), "instruction: DROP_AUTH_ZONE_SIGNATURE_PROOFS"),
        10 => (InstructionV1::DropAllProofs(DropAllProofs), "instruction: DROP_ALL_PROOFS"),
        11 => (InstructionV1::TakeAllFromWorktop(TakeAllFromWorktop { resource_address: res }), "instruction: TAKE_ALL_FROM_WORKTOP"),
        12 => (InstructionV1::TakeFromWorktop(TakeFromWorktop { resource_address: res, amount }), "instruction: TAKE_FROM_WORKTOP"),
        13 => (InstructionV1::AssertWorktopContains(AssertWorktopContains { resource_address: res, amount }), "instruction: ASSERT_WORKTOP_CONTAINS"),
        14 => (InstructionV1::AssertWorktopContainsAny(AssertWorktopContainsAny { resource_address: res }), "instruction: ASSERT_WORKTOP_CONTAINS_ANY"),
        _ => (InstructionV1::AssertWorktopContainsNonFungibles(AssertWorktopContainsNonFungibles { resource_address: res, ids }), "instruction: ASSERT_WORKTOP_CONTAINS_NON_FUNGIBLES"),
    };
    // ids created by the instruction keep the counters of the manifest right
    match &ins {
        InstructionV1::CreateProofFromAuthZoneOfAmount(_) | InstructionV1::CreateProofFromAuthZoneOfNonFungibles(_) | InstructionV1::CreateProofFromAuthZoneOfAll(_) | InstructionV1::PopFromAuthZone(_) => mb.bases.proof += 1,
        InstructionV1::TakeAllFromWorktop(_) | InstructionV1::TakeFromWorktop(_) => {
            // put it straight back so that nothing dangles
            mb.ins.push(ins.clone());
            mb.ins.push(InstructionV1::ReturnToWorktop(ReturnToWorktop { bucket_id: ManifestBucket(mb.bases.bucket) }));
            mb.bases.bucket += 1;
            mb.log.push(format!("{} {} ({}fungible) + RETURN_TO_WORKTOP", label, r.name, if fungible { "" } else { "non-" }));
            return label;
        }
        _ => {}
    }
    mb.log.push(format!("{} {} amount {}", label, r.name, amount));
    mb.ins.push(ins);
    label
}

fn tail(g: &mut Gen, w: &World, mb: &mut MB) {
    if g.chance(7, 8) {
        let a = w.accounts[g.index(w.accounts.len())].address;
        mb.ins.push(call_method(a, ACCOUNT_TRY_DEPOSIT_BATCH_OR_ABORT_IDENT, (ManifestExpression::EntireWorktop, Option::<ResourceOrNonFungible>::None)));
    }
}

fn calls_case(g: &mut Gen) -> Outcome {
    with_world(WORLD_KEY, no_genesis, build, |w| {
        let ext_rc = w.ext::<Rc<Ext>>().clone();
        let ext: &Ext = &ext_rc;
        if !ext.base_problems.is_empty() {
            return Outcome::fail("HARNESS: the frozen C11 world itself has scan problems", format!("{:?}", ext.base_problems));
        }
        let n_calls = 1 + g.below(5) as usize;
        let mut history: Vec<String> = Vec::new();
        let mut reached_any = false;
        let mut done = 0usize;
        let mut txs = 0u64;
        let mut privileged_commit = false;
        while done < n_calls {
            let in_this = 1 + if g.chance(1, 3) { g.below((n_calls - done) as u64) as usize } else { 0 };
            let system = g.chance(1, 6);
            let auth = g.chance(3, 4);
            let totals = Totals::scan(w.db());
            let mut mb = MB::default();
            if !system {
                mb.lock_fee();
            }
            if auth {
                mb.auth_proofs(w, ext);
            }
            let mut labels = Vec::new();
            for _ in 0..in_this {
                labels.push(if g.chance(1, 6) { add_instruction(g, w, ext, &totals, &mut mb) } else { add_call(g, w, ext, &totals, &mut mb) });
            }
            tail(g, w, &mut mb);
            done += in_this;
            txs += 1;
            let mut proofs = all_badges(w);
            let route = if system {
                let role = if g.bool() { SystemExecution::Validator } else { SystemExecution::Protocol };
                proofs.push(system_execution(role));
                "system"
            } else {
                "user"
            };
            let run = if system { w.run_system(mb.system_manifest(), proofs) } else { w.run(mb.manifest(), proofs) };
            history.push(format!("[{} tx{}] {} => {}", route, if auth { ", auth" } else { "" }, mb.log.join(" ; "), short_outcome(&run)));
            let describe = || history.join("\n");
            let v = match judge(&run, w, route, mb.calls_test_panic, &describe) {
                Ok(v) => v,
                Err(f) => return Outcome::Fail(f),
            };
            g.label(v.class);
            debug_class(v.class, &describe);
            if system && v.class == "committed success" {
                privileged_commit = true;
            }
            let reached = v.reached && !(mb.scaffold_may_fail && v.class != "committed success");
            if reached {
                reached_any = true;
                for l in &labels {
                    g.label(*l);
                }
                g.count("calls in transactions that reached blueprint code", in_this as u64);
            }
            if system {
                g.label("system transaction");
            }
        }
        g.count("transactions", txs);
        g.count("calls", n_calls as u64);
        if reached_any {
            g.nontrivial();
        }
        // the well-formedness scan describes what user transactions can reach; a committed system
        // transaction may legitimately leave states outside its tables (e.g. TransactionTracker::create
        // on an allocated address gets the generic-component entity type)
        if g.chance(1, 8) && !privileged_commit {
            let describe = || history.join("\n");
            if let Err(f) = deep_check(w, &describe) {
                return Outcome::Fail(f);
            }
            g.count("deep checks (C05 scan + repository checkers)", 1);
        }
        g.sample(|| history.join("\n"));
        Outcome::Pass
    })
}

pub fn short_outcome(run: &Run) -> String {
    let mut s = run.outcome_string();
    if s.len() > 300 {
        let mut cut = 300;
        while !s.is_char_boundary(cut) {
            cut -= 1;
        }
        s.truncate(cut);
        s.push('…');
    }
    s
}

// ------------------------------------------------------------------------------------------------
// calls made by blueprint code (puppet `act` on the vault-holding component)

use vf_eng_c::pup::{enc, marker, script_manifest_args, v_own, v_own_lit, v_ref_lit, v_tuple, B};
use vf_sbor::wire::*;

#[derive(Clone, Debug)]
enum IRecv {
    Function,
    Bucket(usize),
    Proof(usize),
    Vault(usize),
    AuthZone,
    Global(GlobalAddress),
}

struct ICall<'a> {
    t: &'a Target,
    recv: IRecv,
    direct: bool,
    node: Node,
    mode: Mode,
    mutation: Option<&'static str>,
    wrong_blueprint: bool,
}

fn map_kind_to_scrypto(k: u8) -> u8 {
    match k {
        MK_ADDRESS => SK_REFERENCE,
        MK_BUCKET | MK_PROOF | MK_ADDRESS_RESERVATION => SK_OWN,
        MK_DECIMAL => SK_DECIMAL,
        MK_PRECISE_DECIMAL => SK_PRECISE_DECIMAL,
        MK_NF_LOCAL_ID => SK_NF_LOCAL_ID,
        MK_EXPRESSION | MK_BLOB => K_ARRAY,
        other => other,
    }
}

struct SlotMap<'a> {
    buckets: &'a [u8],
    proofs: &'a [u8],
    reservations: &'a [u8],
    blobs: &'a IndexMap<Hash, Vec<u8>>,
    refs: Vec<NodeId>,
}

fn own_body(slot: Option<&u8>, fallback: u32) -> Vec<u8> {
    match slot {
        Some(s) => placeholder(*s).0.to_vec(),
        None => {
            let mut b = [0u8; 30];
            b[0] = 0b1111_1000;
            b[26..30].copy_from_slice(&fallback.to_le_bytes());
            b.to_vec()
        }
    }
}

/// What the transaction processor does to call arguments: manifest values become Scrypto values
/// (buckets / proofs / reservations become the owned nodes, addresses become references).
fn manifest_node_to_scrypto(n: &Node, m: &mut SlotMap) -> Node {
    match n {
        Node::Enum { disc, fields } => Node::Enum { disc: *disc, fields: fields.iter().map(|f| manifest_node_to_scrypto(f, m)).collect() },
        Node::Tuple(fields) => Node::Tuple(fields.iter().map(|f| manifest_node_to_scrypto(f, m)).collect()),
        Node::Array { ek, elems } => Node::Array { ek: map_kind_to_scrypto(*ek), elems: elems.iter().map(|f| manifest_node_to_scrypto(f, m)).collect() },
        Node::Map { kk, vk, entries } => Node::Map {
            kk: map_kind_to_scrypto(*kk),
            vk: map_kind_to_scrypto(*vk),
            entries: entries.iter().map(|(k, v)| (manifest_node_to_scrypto(k, m), manifest_node_to_scrypto(v, m))).collect(),
        },
        Node::Custom { kind, body } => {
            let id = || u32::from_le_bytes(body.get(..4).and_then(|b| b.try_into().ok()).unwrap_or([0; 4]));
            match *kind {
                MK_ADDRESS => {
                    if body.len() == 31 && body[0] == 0 {
                        let mut a = [0u8; 30];
                        a.copy_from_slice(&body[1..]);
                        m.refs.push(NodeId(a));
                        Node::Custom { kind: SK_REFERENCE, body: body[1..].to_vec() }
                    } else {
                        // a named address: stands for an address that does not exist yet
                        Node::Custom { kind: SK_REFERENCE, body: own_body(None, id()) }
                    }
                }
                MK_BUCKET => Node::Custom { kind: SK_OWN, body: own_body(m.buckets.get(id() as usize), id()) },
                MK_PROOF => Node::Custom { kind: SK_OWN, body: own_body(m.proofs.get(id() as usize), id()) },
                MK_ADDRESS_RESERVATION => Node::Custom { kind: SK_OWN, body: own_body(m.reservations.get(id() as usize), id()) },
                MK_EXPRESSION => Node::Array { ek: SK_OWN, elems: vec![] },
                MK_BLOB => {
                    let h: Option<[u8; 32]> = body.as_slice().try_into().ok();
                    Node::Bytes(h.and_then(|h| m.blobs.get(&Hash(h)).cloned()).unwrap_or_default())
                }
                MK_DECIMAL => Node::Custom { kind: SK_DECIMAL, body: body.clone() },
                MK_PRECISE_DECIMAL => Node::Custom { kind: SK_PRECISE_DECIMAL, body: body.clone() },
                MK_NF_LOCAL_ID => Node::Custom { kind: SK_NF_LOCAL_ID, body: body.clone() },
                k => Node::Custom { kind: k, body: body.clone() },
            }
        }
        other => other.clone(),
    }
}

fn internal_case(g: &mut Gen) -> Outcome {
    with_world(WORLD_KEY, no_genesis, build, |w| {
        let ext_rc = w.ext::<Rc<Ext>>().clone();
        let ext: &Ext = &ext_rc;
        let totals = Totals::scan(w.db());
        let n_calls = 1 + g.below(4) as usize;
        let mut buckets: Vec<ResNeed> = Vec::new();
        let mut proofs: Vec<ResNeed> = Vec::new();
        let mut reservations: Vec<(PackageAddress, String)> = Vec::new();
        let mut blobs: IndexMap<Hash, Vec<u8>> = IndexMap::new();
        let mut calls: Vec<ICall> = Vec::new();
        // proofs pushed into the frame's auth zone before the calls (indices into `proofs`)
        let mut az_push: Vec<usize> = Vec::new();
        let res_bp = |ext: &Ext, r: &ResourceAddress, f: &str, n: &str| -> String {
            match ext.res_info(r).map(|i| i.kind.clone()) {
                Some(ResKind::NonFungible) => n.to_string(),
                _ => f.to_string(),
            }
        };
        for _ in 0..n_calls {
            // receiver first, then a method of its blueprint (or, 1 in 6, of any blueprint)
            let pick_res = |g: &mut Gen| -> ResNeed {
                let r = g.pick(&ext.resources).address;
                ResNeed { res: r, amount: *g.pick(&[Amount::Some, Amount::All, Amount::One, Amount::Half, Amount::Smallest, Amount::Zero]), acct: ext.pick_holder(g, &r) }
            };
            let (recv, bp): (IRecv, Option<(PackageAddress, String)>) = match g.weighted(&[5, 4, 5, 3, 2, 2]) {
                0 => {
                    let need = pick_res(g);
                    let bp = res_bp(ext, &need.res, FUNGIBLE_BUCKET_BLUEPRINT, NON_FUNGIBLE_BUCKET_BLUEPRINT);
                    buckets.push(need);
                    (IRecv::Bucket(buckets.len() - 1), Some((RESOURCE_PACKAGE, bp)))
                }
                1 => {
                    let mut need = pick_res(g);
                    if need.amount == Amount::Zero {
                        need.amount = Amount::One;
                    }
                    let bp = res_bp(ext, &need.res, FUNGIBLE_PROOF_BLUEPRINT, NON_FUNGIBLE_PROOF_BLUEPRINT);
                    proofs.push(need);
                    (IRecv::Proof(proofs.len() - 1), Some((RESOURCE_PACKAGE, bp)))
                }
                2 => {
                    let i = g.index(ext.holder_vaults.len());
                    let bp = res_bp(ext, &ext.holder_vaults[i].1, FUNGIBLE_VAULT_BLUEPRINT, NON_FUNGIBLE_VAULT_BLUEPRINT);
                    (IRecv::Vault(i), Some((RESOURCE_PACKAGE, bp)))
                }
                3 => {
                    // an auth zone holding proofs of several kinds is the interesting one
                    if az_push.is_empty() && g.chance(3, 4) {
                        let n = 1 + g.below(3);
                        for _ in 0..n {
                            let mut need = pick_res(g);
                            if need.amount == Amount::Zero {
                                need.amount = Amount::One;
                            }
                            proofs.push(need);
                            az_push.push(proofs.len() - 1);
                        }
                    }
                    (IRecv::AuthZone, Some((RESOURCE_PACKAGE, AUTH_ZONE_BLUEPRINT.to_string())))
                }
                4 => {
                    let a = *g.pick(&ext.components);
                    let bp = ext.globals.iter().find(|(_, v)| v.contains(&a)).map(|(k, _)| k.clone());
                    (IRecv::Global(a), bp)
                }
                _ => (IRecv::Function, None),
            };
            let mut wrong_blueprint = false;
            let t: &Target = {
                let own: Vec<usize> = match (&recv, &bp) {
                    (IRecv::Function, _) => (0..ext.targets.len()).filter(|i| ext.targets[*i].receiver.is_none()).collect(),
                    (_, Some(k)) => ext.by_blueprint.get(k).cloned().unwrap_or_default().into_iter().filter(|i| ext.targets[*i].receiver.is_some()).collect(),
                    _ => vec![],
                };
                if own.is_empty() || g.chance(1, 6) {
                    wrong_blueprint = !matches!(recv, IRecv::Function);
                    &ext.targets[g.index(ext.targets.len())]
                } else {
                    &ext.targets[own[g.index(own.len())]]
                }
            };
            let mode = match g.weighted(&[13, 4, 3]) {
                0 => Mode::Typed,
                1 => Mode::Mutant,
                _ => Mode::Raw,
            };
            let mut ga = gen_args(g, ext, t, mode);
            let schema = t.input.and_then(|(h, _)| ext.schema(&t.package, &h));
            let recv_global = match &recv {
                IRecv::Global(a) => Some(*a),
                _ => None,
            };
            let bases = Bases { bucket: buckets.len() as u32, proof: proofs.len() as u32, reservation: reservations.len() as u32, named: reservations.len() as u32 };
            let mut sub = Subst::new(ext, w, t, recv_global.as_ref(), bases);
            sub.max_owned = 3;
            if matches!(recv, IRecv::AuthZone) {
                sub.related = az_push.iter().map(|p| proofs[*p].res).collect();
            }
            {
                let s = if ga.mode == Mode::Raw { None } else { schema.as_ref().map(|s| s.v1()) };
                sub.subst(g, &mut ga.node, s, t.input.map(|(_, id)| id));
            }
            for mut b in sub.needs.buckets {
                if b.amount == Amount::TooMuch {
                    b.amount = Amount::All;
                }
                buckets.push(b);
            }
            for mut p in sub.needs.proofs {
                if matches!(p.amount, Amount::TooMuch | Amount::Zero) {
                    p.amount = Amount::One;
                }
                proofs.push(p);
            }
            reservations.extend(sub.needs.reservations);
            for b in sub.needs.blobs {
                blobs.insert(hash(&b), b);
            }
            let direct = matches!(recv, IRecv::Vault(_)) && t.receiver.map(|r| r.1).unwrap_or(false) && g.chance(2, 3);
            calls.push(ICall { t, recv, direct, node: ga.node, mode: ga.mode, mutation: ga.mutation, wrong_blueprint });
        }
        if buckets.len() + proofs.len() > 40 {
            return Outcome::Discard;
        }
        // every proof sits on a bucket of its own
        let first_proof_bucket = buckets.len();
        for p in &proofs {
            // a proof needs a non-empty bucket: fall back to 1 XRD when the account has none of the resource
            let (bal, _) = account_holding(ext, &totals, p.acct, &p.res);
            if bal.is_positive() {
                buckets.push(p.clone());
            } else {
                buckets.push(ResNeed { res: XRD, amount: Amount::One, acct: p.acct });
            }
        }

        // ---- the script ----
        let mut b = B::new();
        let bucket_slots: Vec<u8> = if buckets.is_empty() {
            vec![]
        } else {
            let first = b.op(Op::Import(v_tuple((0..buckets.len()).map(|i| v_own_lit(marker(0, i as u8))).collect())), buckets.len() as u8);
            (0..buckets.len() as u8).map(|i| first + i).collect()
        };
        let mut proof_slots = Vec::new();
        for j in 0..proofs.len() {
            let s = b.op(Op::CallMethod { receiver: N::Slot(bucket_slots[first_proof_bucket + j]), method: BUCKET_CREATE_PROOF_OF_ALL_IDENT.into(), args: scrypto_encode(&()).unwrap() }, 2) + 1;
            proof_slots.push(s);
        }
        let mut reservation_slots = Vec::new();
        for (p, bp) in &reservations {
            let s = b.op(Op::AllocateAddress { package: *p, blueprint: bp.clone() }, 2);
            reservation_slots.push(s);
        }
        let auth_zone_slot = if calls.iter().any(|c| matches!(c.recv, IRecv::AuthZone)) { Some(b.op(Op::ActorGetNodeId(ACTOR_REF_AUTH_ZONE), 1)) } else { None };
        if let Some(az) = auth_zone_slot {
            for p in &az_push {
                b.op(Op::CallMethod { receiver: N::Slot(az), method: AUTH_ZONE_PUSH_IDENT.into(), args: enc(&v_tuple(vec![v_own(proof_slots[*p])])) }, 1);
            }
        }
        let mut opened: Vec<u8> = Vec::new();
        for i in 0..ext.holder_vaults.len() {
            if calls.iter().any(|c| matches!(c.recv, IRecv::Vault(x) if x == i)) {
                let h = b.op(Op::ActorOpenField { state: ACTOR_STATE_SELF, field: i as u8, flags: 0 }, 1);
                b.op(Op::FieldRead(h), 1);
                opened.push(h);
            }
        }
        let mut sm = SlotMap { buckets: &bucket_slots, proofs: &proof_slots, reservations: &reservation_slots, blobs: &blobs, refs: Vec::new() };
        let mut call_ops = Vec::new();
        let mut log = Vec::new();
        let mut uses_test_panic = false;
        for c in &calls {
            let args = print_payload(Flavour::Scrypto, &manifest_node_to_scrypto(&c.node, &mut sm));
            let method = c.t.ident.clone();
            let receiver_text;
            let op = match &c.recv {
                IRecv::Function => {
                    receiver_text = "function".to_string();
                    Op::CallFunction { package: c.t.package, blueprint: c.t.blueprint.clone(), function: method, args }
                }
                other => {
                    let n = match other {
                        IRecv::Bucket(i) => {
                            receiver_text = format!("bucket{}", i);
                            N::Slot(bucket_slots[*i])
                        }
                        IRecv::Proof(j) => {
                            receiver_text = format!("proof{}", j);
                            N::Slot(proof_slots[*j])
                        }
                        IRecv::Vault(i) => {
                            receiver_text = format!("own vault {}{}", i, if c.direct { " (direct access)" } else { "" });
                            N::Lit(ext.holder_vaults[*i].0)
                        }
                        IRecv::AuthZone => {
                            receiver_text = "auth zone".to_string();
                            N::Slot(auth_zone_slot.unwrap())
                        }
                        IRecv::Global(a) => {
                            receiver_text = format!("global {}", hex::encode(&a.as_node_id().0[..6]));
                            sm.refs.push(*a.as_node_id());
                            N::Lit(*a.as_node_id())
                        }
                        IRecv::Function => unreachable!(),
                    };
                    if c.direct {
                        Op::CallDirect { receiver: n, method, args }
                    } else {
                        match c.t.module {
                            Module::Main => Op::CallMethod { receiver: n, method, args },
                            Module::Metadata => Op::CallModuleMethod { receiver: n, module: 1, method, args },
                            Module::Royalty => Op::CallModuleMethod { receiver: n, module: 2, method, args },
                            Module::RoleAssignment => Op::CallModuleMethod { receiver: n, module: 0, method, args },
                        }
                    }
                }
            };
            if c.t.package == TEST_UTILS_PACKAGE {
                uses_test_panic = true;
            }
            log.push(format!(
                "CALL {} [{}{}] on {}{} args {}",
                c.t.label,
                match c.mode {
                    Mode::Typed => "typed",
                    Mode::Mutant => "mutant: ",
                    Mode::Raw => "raw",
                },
                c.mutation.unwrap_or(""),
                receiver_text,
                if c.wrong_blueprint { " (method of another blueprint)" } else { "" },
                render_node(&c.node)
            ));
            call_ops.push(op);
        }
        // references the frame must be able to see come in through the payload, first of all
        let mut refs: Vec<NodeId> = Vec::new();
        for r in sm.refs.iter() {
            if r.is_global() && !refs.contains(r) {
                refs.push(*r);
            }
        }
        let mut ops: Vec<Op> = Vec::new();
        let shift = refs.len() as u8;
        if !refs.is_empty() {
            ops.push(Op::Import(v_tuple(refs.iter().map(|n| v_ref_lit(*n)).collect())));
        }
        // slots of everything after the first op move up by `shift`
        fn shift_n(n: &mut N, by: u8) {
            if let N::Slot(s) = n {
                *s += by;
            }
        }
        let mut body = b.ops.clone();
        body.extend(call_ops);
        for h in &opened {
            body.push(Op::FieldClose(*h));
        }
        for op in body.iter_mut() {
            match op {
                Op::CallMethod { receiver, args, .. } | Op::CallModuleMethod { receiver, args, .. } | Op::CallDirect { receiver, args, .. } => {
                    shift_n(receiver, shift);
                    *args = shift_placeholders(args, shift);
                }
                Op::CallFunction { args, .. } => *args = shift_placeholders(args, shift),
                Op::FieldRead(h) | Op::FieldClose(h) => *h += shift,
                _ => {}
            }
        }
        ops.extend(body);
        ops.push(Op::ReturnLive);
        let script = Script(ops);

        // ---- the manifest ----
        let mut mb = MB::default();
        mb.lock_fee();
        let auth = g.chance(3, 4);
        if auth {
            mb.auth_proofs(w, ext);
        }
        mb.scaffold(g, w, ext, &totals, &Needs { buckets: buckets.clone(), ..Default::default() });
        let method = if g.chance(7, 8) { PUPPET_ACT } else { PUPPET_PEEK };
        mb.ins.push(InstructionV1::CallMethod(CallMethod { address: ManifestGlobalAddress::Static(ext.holder.into()), method_name: method.to_string(), args: script_manifest_args(&script) }));
        tail(g, w, &mut mb);
        let run = w.run(mb.manifest(), all_badges(w));
        let describe = || format!("[blueprint code {}{}] {} ; {} => {}", method, if auth { ", auth" } else { "" }, mb.log.join(" ; "), log.join(" ; "), short_outcome(&run));
        let v = match judge(&run, w, "blueprint-code", uses_test_panic, &describe) {
            Ok(v) => v,
            Err(f) => return Outcome::Fail(f),
        };
        g.label(v.class);
        debug_class(v.class, &describe);
        for c in &calls {
            g.label(match &c.recv {
                IRecv::Function => "receiver: function",
                IRecv::Bucket(_) => "receiver: bucket",
                IRecv::Proof(_) => "receiver: proof",
                IRecv::Vault(_) => {
                    if c.direct {
                        "receiver: own vault, direct access"
                    } else {
                        "receiver: own vault"
                    }
                }
                IRecv::AuthZone => "receiver: auth zone",
                IRecv::Global(_) => "receiver: global component",
            });
        }
        g.count("calls", calls.len() as u64);
        if v.reached && !mb.scaffold_may_fail {
            g.nontrivial();
            if v.class == "committed success" {
                for c in &calls {
                    g.label(c.t.label);
                }
            } else if calls.len() == 1 {
                g.label(calls[0].t.label);
            }
        }
        if v.committed && g.chance(1, 8) {
            if let Err(f) = deep_check(w, &describe) {
                return Outcome::Fail(f);
            }
            g.count("deep checks (C05 scan + repository checkers)", 1);
        }
        g.sample(|| describe());
        Outcome::Pass
    })
}

fn count_nodes(n: &Node) -> usize {
    1 + match n {
        Node::Enum { fields, .. } | Node::Tuple(fields) => fields.iter().map(count_nodes).sum(),
        Node::Array { elems, .. } => elems.iter().map(count_nodes).sum(),
        Node::Map { entries, .. } => entries.iter().map(|(k, v)| count_nodes(k) + count_nodes(v)).sum(),
        _ => 0,
    }
}

fn nth_node<'a>(n: &'a mut Node, k: &mut usize) -> Option<&'a mut Node> {
    if *k == 0 {
        return Some(n);
    }
    *k -= 1;
    match n {
        Node::Enum { fields, .. } | Node::Tuple(fields) => {
            for f in fields.iter_mut() {
                if let Some(x) = nth_node(f, k) {
                    return Some(x);
                }
            }
            None
        }
        Node::Array { elems, .. } => {
            for f in elems.iter_mut() {
                if let Some(x) = nth_node(f, k) {
                    return Some(x);
                }
            }
            None
        }
        Node::Map { entries, .. } => {
            for (a, b) in entries.iter_mut() {
                if let Some(x) = nth_node(a, k) {
                    return Some(x);
                }
                if let Some(x) = nth_node(b, k) {
                    return Some(x);
                }
            }
            None
        }
        _ => None,
    }
}

/// One value-level mutation somewhere in a payload tree (the result is still well-formed SBOR).
fn mutate_tree(g: &mut Gen, root: &mut Node, idents: &[&str]) -> &'static str {
    let total = count_nodes(root);
    for _ in 0..8 {
        let mut k = g.index(total);
        let Some(n) = nth_node(root, &mut k) else { continue };
        match n {
            Node::Bool(b) => {
                *b = !*b;
                return "toggle bool";
            }
            Node::U8(v) => {
                *v = v.wrapping_add(1);
                return "u8 + 1";
            }
            Node::U32(v) => {
                *v = *g.pick(&[0, 1, v.wrapping_add(1), u32::MAX]);
                return "u32 boundary";
            }
            Node::U64(v) => {
                *v = *g.pick(&[0, 1, v.wrapping_add(1), u64::MAX]);
                return "u64 boundary";
            }
            Node::I64(v) => {
                *v = *g.pick(&[0, -1, i64::MIN, i64::MAX]);
                return "i64 boundary";
            }
            Node::Str(s) => {
                *s = match g.below(3) {
                    0 => g.pick(idents).to_string(),
                    1 => String::new(),
                    _ => format!("{}x", s),
                };
                return "replace string";
            }
            Node::Enum { disc, fields } => {
                if g.bool() || fields.is_empty() {
                    *disc = match g.below(3) {
                        0 => disc.wrapping_add(1),
                        1 => disc.wrapping_sub(1),
                        _ => g.u8(),
                    };
                    return "change enum discriminator";
                }
                fields.pop();
                return "drop enum field";
            }
            Node::Array { elems, .. } => {
                if elems.is_empty() {
                    continue;
                }
                let i = g.index(elems.len());
                match g.below(3) {
                    0 => {
                        elems.remove(i);
                        return "remove array element";
                    }
                    1 => {
                        let e = elems[i].clone();
                        elems.insert(i, e);
                        return "duplicate array element";
                    }
                    _ => {
                        let j = g.index(elems.len());
                        elems.swap(i, j);
                        return "swap array elements";
                    }
                }
            }
            Node::Bytes(b) => {
                if b.is_empty() {
                    b.push(g.u8());
                } else {
                    let i = g.index(b.len());
                    b[i] ^= 1 << g.below(8);
                }
                return "flip bit in bytes";
            }
            Node::Custom { body, .. } => {
                if body.is_empty() {
                    continue;
                }
                let i = g.index(body.len());
                body[i] ^= 1 << g.below(8);
                return "flip bit in custom value";
            }
            _ => continue,
        }
    }
    "no mutation"
}

/// Moves every placeholder slot in an encoded argument payload up by `by` (the reference import
/// is placed in front of the script after the arguments were rendered).
fn shift_placeholders(args: &[u8], by: u8) -> Vec<u8> {
    if by == 0 {
        return args.to_vec();
    }
    fn walk(v: &mut ScryptoValue, by: u8) {
        match v {
            Value::Custom { value: ScryptoCustomValue::Own(o) } => {
                if o.0 .0[0] == 0xEE && o.0 .0[2..].iter().all(|b| *b == 0) {
                    o.0 .0[1] = o.0 .0[1].saturating_add(by);
                }
            }
            Value::Custom { value: ScryptoCustomValue::Reference(o) } => {
                if o.0 .0[0] == 0xEE && o.0 .0[2..].iter().all(|b| *b == 0) {
                    o.0 .0[1] = o.0 .0[1].saturating_add(by);
                }
            }
            Value::Tuple { fields } | Value::Enum { fields, .. } => fields.iter_mut().for_each(|f| walk(f, by)),
            Value::Array { elements, .. } => elements.iter_mut().for_each(|f| walk(f, by)),
            Value::Map { entries, .. } => entries.iter_mut().for_each(|(k, x)| {
                walk(k, by);
                walk(x, by)
            }),
            _ => {}
        }
    }
    match scrypto_decode::<ScryptoValue>(args) {
        Ok(mut v) => {
            walk(&mut v, by);
            scrypto_encode(&v).unwrap_or_else(|_| args.to_vec())
        }
        Err(_) => args.to_vec(),
    }
}

// ------------------------------------------------------------------------------------------------
// auth zones holding proofs of several resources and kinds

/// 1-4 proofs of fungible and non-fungible resources are put into the transaction's auth zone
/// (account `create_proof_of_*`), then 1-3 instructions compose / pop / clone / drop proofs. The
/// simplest case (empty tape) is the scenario of the repaired composition trap: a fungible and a
/// non-fungible proof in the zone, then CREATE_PROOF_FROM_AUTH_ZONE_OF_AMOUNT of the fungible one.
fn auth_zone_case(g: &mut Gen) -> Outcome {
    with_world(WORLD_KEY, no_genesis, build, |w| {
        let ext_rc = w.ext::<Rc<Ext>>().clone();
        let ext: &Ext = &ext_rc;
        let totals = Totals::scan(w.db());
        let mut mb = MB::default();
        mb.lock_fee();
        // the zone
        let extra = g.below(3) as usize;
        let mut in_zone: Vec<ResInfo> = Vec::new();
        mb.auth_proofs(w, ext);
        in_zone.push(ext.resources[1].clone()); // world badge (fungible)
        in_zone.push(ext.resources.iter().find(|r| r.address == VALIDATOR_OWNER_BADGE).unwrap().clone());
        for _ in 0..extra {
            let r = g.pick(&ext.resources).clone();
            let acct = ext.pick_holder(g, &r.address);
            let (bal, ids) = account_holding(ext, &totals, acct, &r.address);
            match r.kind {
                ResKind::NonFungible => {
                    let take: Vec<NonFungibleLocalId> = ids.into_iter().take(1 + g.index(2)).collect();
                    if take.is_empty() {
                        continue;
                    }
                    mb.ins.push(call_method(w.accounts[acct].address, ACCOUNT_CREATE_PROOF_OF_NON_FUNGIBLES_IDENT, (r.address, take)));
                }
                ResKind::Fungible { divisibility } => {
                    let how = *g.pick(&[Amount::One, Amount::Some, Amount::All, Amount::Smallest]);
                    let amt = resolve_amount(g, how, bal, divisibility);
                    if !amt.is_positive() {
                        continue;
                    }
                    mb.ins.push(call_method(w.accounts[acct].address, ACCOUNT_CREATE_PROOF_OF_AMOUNT_IDENT, (r.address, amt)));
                }
            }
            mb.log.push(format!("A{} proof of {} into the zone", acct, r.name));
            in_zone.push(r);
        }
        let steps = 1 + g.below(3);
        let mut named: u32 = 0;
        for _ in 0..steps {
            // mostly resources that are in the zone, sometimes any
            let r = if g.chance(1, 5) { g.pick(&ext.resources).clone() } else { g.pick(&in_zone).clone() };
            let amount = match g.weighted(&[4, 2, 2, 1]) {
                0 => dec!(1),
                1 => Decimal::ZERO,
                2 => Decimal::from(1 + g.below(10)),
                _ => dec!("0.5"),
            };
            let ids: Vec<NonFungibleLocalId> = if r.address == VALIDATOR_OWNER_BADGE {
                vec![ext.validator_badge_id.clone()]
            } else {
                let acct = ext.pick_holder(g, &r.address);
                account_holding(ext, &totals, acct, &r.address).1.into_iter().take(g.index(3)).collect()
            };
            let (ins, what): (InstructionV1, &'static str) = match g.weighted(&[5, 3, 3, 1, 1, 1, 1]) {
                0 => (InstructionV1::CreateProofFromAuthZoneOfAmount(CreateProofFromAuthZoneOfAmount { resource_address: r.address, amount }), "auth zone: of_amount"),
                1 => (InstructionV1::CreateProofFromAuthZoneOfAll(CreateProofFromAuthZoneOfAll { resource_address: r.address }), "auth zone: of_all"),
                2 => (InstructionV1::CreateProofFromAuthZoneOfNonFungibles(CreateProofFromAuthZoneOfNonFungibles { resource_address: r.address, ids }), "auth zone: of_non_fungibles"),
                3 => (InstructionV1::PopFromAuthZone(PopFromAuthZone), "auth zone: pop"),
                4 if named > 0 => (InstructionV1::CloneProof(CloneProof { proof_id: ManifestProof(g.below(named as u64) as u32) }), "auth zone: clone named proof"),
                5 if named > 0 => (InstructionV1::PushToAuthZone(PushToAuthZone { proof_id: ManifestProof(named - 1) }), "auth zone: push named proof"),
                _ => (InstructionV1::DropAuthZoneRegularProofs(DropAuthZoneRegularProofs), "auth zone: drop regular proofs"),
            };
            if matches!(ins, InstructionV1::CreateProofFromAuthZoneOfAmount(_) | InstructionV1::CreateProofFromAuthZoneOfAll(_) | InstructionV1::CreateProofFromAuthZoneOfNonFungibles(_) | InstructionV1::PopFromAuthZone(_) | InstructionV1::CloneProof(_)) {
                named += 1;
            }
            g.label(what);
            mb.log.push(format!("{} {} amount {}", what, r.name, amount));
            mb.ins.push(ins);
        }
        // everything must be unlocked again once the proofs are gone: take the whole badge balance out and back
        let check_unlock = g.chance(1, 2);
        if check_unlock {
            let (bal, _) = account_holding(ext, &totals, 0, &w.badge);
            mb.ins.push(InstructionV1::DropNamedProofs(DropNamedProofs));
            mb.ins.push(InstructionV1::DropAuthZoneRegularProofs(DropAuthZoneRegularProofs));
            mb.ins.push(call_method(w.accounts[0].address, ACCOUNT_WITHDRAW_IDENT, (w.badge, bal)));
            mb.ins.push(call_method(w.accounts[0].address, ACCOUNT_DEPOSIT_BATCH_IDENT, (ManifestExpression::EntireWorktop,)));
            mb.log.push("drop all proofs, withdraw the whole badge balance, deposit it back".into());
        }
        let run = w.run(mb.manifest(), all_badges(w));
        let describe = || format!("{} => {}", mb.log.join(" ; "), short_outcome(&run));
        let v = match judge(&run, w, "auth-zone", false, &describe) {
            Ok(v) => v,
            Err(f) => return Outcome::Fail(f),
        };
        g.label(v.class);
        debug_class(v.class, &describe);
        if in_zone.len() >= 2 {
            g.nontrivial();
        }
        if check_unlock {
            // a vault that stays locked after its proofs are gone shows as InsufficientBalance here
            if let Some(RuntimeError::ApplicationError(ApplicationError::VaultError(_))) = run.failure() {
                let text = run.outcome_string();
                if text.contains("InsufficientBalance") {
                    return Outcome::fail("a vault stays locked after every proof composed from the auth zone was dropped", describe());
                }
            }
        }
        g.sample(|| describe());
        Outcome::Pass
    })
}

// ------------------------------------------------------------------------------------------------
// notarized transactions, mutated

fn signed_v1(w: &mut World, manifest: TransactionManifestV1, nonce: u32, signers: &[usize], notary_is_signatory: bool) -> Result<RawNotarizedTransaction, String> {
    let notary = w.sim.default_notary();
    let epoch = w.sim.get_current_epoch();
    let mut b = TransactionV1Builder::new()
        .header(TransactionHeaderV1 {
            network_id: NetworkDefinition::simulator().id,
            start_epoch_inclusive: epoch,
            end_epoch_exclusive: epoch.after(10).unwrap_or(epoch),
            nonce,
            notary_public_key: notary.public_key().into(),
            notary_is_signatory,
            tip_percentage: 0,
        })
        .manifest(manifest);
    for i in signers {
        match &w.accounts[*i].key {
            k @ Key::Secp(..) => {
                let sk = k.secp_private().ok_or("key")?;
                b = b.sign(&sk);
            }
            k @ Key::Ed(..) => {
                let sk = k.ed_private().ok_or("key")?;
                b = b.sign(&sk);
            }
        }
    }
    let tx = b.notarize(&notary).build();
    tx.to_raw().map_err(|e| format!("{:?}", e))
}

fn notarized_case(g: &mut Gen) -> Outcome {
    with_world(WORLD_KEY, no_genesis, build, |w| {
        let ext_rc = w.ext::<Rc<Ext>>().clone();
        let ext: &Ext = &ext_rc;
        let totals = Totals::scan(w.db());
        let mut mb = MB::default();
        mb.lock_fee();
        if g.chance(1, 2) {
            mb.auth_proofs(w, ext);
        }
        let n = 1 + g.below(2);
        for _ in 0..n {
            if g.chance(1, 6) {
                add_instruction(g, w, ext, &totals, &mut mb);
            } else {
                add_call(g, w, ext, &totals, &mut mb);
            }
        }
        tail(g, w, &mut mb);
        let signers: Vec<usize> = (0..w.accounts.len()).filter(|_| g.chance(3, 4)).collect();
        let nonce = g.u32();
        let mut what: Vec<String> = Vec::new();
        let base = mb.log.join(" ; ");
        let raw = match g.weighted(&[3, 4, 1]) {
            0 => {
                // mutate the whole signed payload
                let raw = match vf_core::catch(|| signed_v1(w, mb.manifest(), nonce, &signers, false)) {
                    Ok(Ok(r)) => r,
                    Ok(Err(_)) => return Outcome::Discard,
                    Err(p) => return Outcome::fail(format!("building / encoding a notarized transaction panics: {}", short_loc(&p)), format!("{}\n{}", p, base)),
                };
                let mut bytes = raw.to_vec();
                let k = 1 + g.below(3);
                for _ in 0..k {
                    what.push(mutate_bytes(g, &mut bytes).to_string());
                }
                g.label("mutated: whole notarized payload");
                RawNotarizedTransaction::from_vec(bytes)
            }
            1 => {
                // mutate the instruction list, decode, re-sign
                let mut bytes = manifest_encode(&mb.ins).unwrap();
                let k = 1 + g.below(3);
                if g.chance(1, 4) {
                    for _ in 0..k {
                        what.push(mutate_bytes(g, &mut bytes).to_string());
                    }
                } else if let Ok(parsed) = parse_payload(Flavour::Manifest, &bytes) {
                    // structure-preserving: damage values inside the decoded tree
                    let mut tree = parsed.tree;
                    let idents: Vec<&str> = ext.targets.iter().map(|t| t.ident.as_str()).collect();
                    for _ in 0..k {
                        what.push(mutate_tree(g, &mut tree, &idents).to_string());
                    }
                    bytes = print_payload(Flavour::Manifest, &tree);
                }
                let decoded = match vf_core::catch(|| manifest_decode::<Vec<InstructionV1>>(&bytes)) {
                    Ok(d) => d,
                    Err(p) => return Outcome::fail(format!("decoding mutated instruction bytes panics: {}", short_loc(&p)), format!("{}\n{}", p, hex::encode(&bytes))),
                };
                let Ok(ins) = decoded else {
                    g.label("mutated instructions do not decode");
                    return Outcome::Pass;
                };
                g.label("mutated: instruction list, re-signed");
                let m = TransactionManifestV1 { instructions: ins, blobs: mb.blobs.clone(), object_names: Default::default() };
                what.push(format!("{:?}", m.instructions).chars().take(1500).collect());
                match vf_core::catch(|| signed_v1(w, m, nonce, &signers, false)) {
                    Ok(Ok(r)) => r,
                    Ok(Err(_)) => {
                        g.label("mutated instructions do not re-encode");
                        return Outcome::Pass;
                    }
                    Err(p) => return Outcome::fail(format!("building / encoding a notarized transaction panics: {}", short_loc(&p)), format!("{}\n{}", p, what.join(" | "))),
                }
            }
            _ => {
                g.label("unmutated notarized transaction");
                match signed_v1(w, mb.manifest(), nonce, &signers, true) {
                    Ok(r) => r,
                    Err(_) => return Outcome::Discard,
                }
            }
        };
        let run = w.run_notarized(raw);
        let describe = || format!("{}\nmutations: {}\n=> {}", base, what.join(" | "), short_outcome(&run));
        let v = match judge(&run, w, "notarized", mb.calls_test_panic, &describe) {
            Ok(v) => v,
            Err(f) => return Outcome::Fail(f),
        };
        g.label(v.class);
        debug_class(v.class, &describe);
        if run.receipt.is_some() {
            g.label("passed prepare + validate, executed");
            g.nontrivial();
        }
        if v.committed && g.chance(1, 8) {
            if let Err(f) = deep_check(w, &describe) {
                return Outcome::Fail(f);
            }
        }
        g.sample(|| describe());
        Outcome::Pass
    })
}

pub fn check() -> Check {
    Check::new(
        "C11",
        "No transaction can crash the engine",
        "part calls: 1-5 calls of entries of the catalogue read at run time from the package definitions stored in the ledger (every function and method of every blueprint of every package except the harness's puppets), grouped into 1-5 committed transactions on a world holding accounts, fungible / non-fungible resources, three pools, a staked validator with an unstake claim, an access controller, an account locker, an identity and puppet components; arguments generated against the stored input schema (65 %), with one planted defect (20 %) or as raw manifest values (15 %), node ids / buckets / proofs / address reservations / blobs replaced by live ones created by preceding instructions; receivers: instances of the blueprint, any global object for module methods, account and puppet vaults through direct access, wrong-blueprint receivers; 1 in 6 transactions is a system transaction with the validator or protocol proof; 3 in 4 carry the proofs that open protected methods. part internal: the same catalogue called by blueprint code on its own buckets, proofs, vaults and auth zone. part notarized: signed V1 transactions with byte mutations of the whole payload or of the instruction list (re-signed) through prepare, validate and execute. Oracle: always a receipt, never a host panic, never NativeRuntimeError::Trap, supply == sum of vaults after every commit, C05 scan and repository checkers on a sample. Non-trivial = a generated call got past input-schema validation and auth (success, or a failure raised by blueprint code). Distinct = distinct decoded choice sequences.",
    )
    .assume("TestUtils::panic is a native function whose purpose is to panic; its Trap is expected and not judged")
    .assume("host panics raised by the simulator's own `expect` on prepare (payload not encodable as a test transaction) are counted, not judged")
    .part(Part::new("calls", 6000, 400_000, 4096, calls_case))
    .part(Part::new("internal", 4000, 250_000, 4096, internal_case))
    .part(Part::new("auth_zone", 1500, 80_000, 1024, auth_zone_case))
    .part(Part::new("notarized", 3000, 150_000, 4096, notarized_case))
    .min_nontrivial_pct(20.0)
}
