//! Scratch directories for rocksdb stores: always under `<VERIF_ROOT>/.work/`, removed per case.

use std::path::{Path, PathBuf};
use tempfile::TempDir;

pub fn work_root() -> PathBuf {
    let p = vf_core::verif_root().join(".work").join("vf-store");
    let _ = std::fs::create_dir_all(&p);
    p
}

pub fn case_dir(prefix: &str) -> TempDir {
    tempfile::Builder::new().prefix(prefix).tempdir_in(work_root()).expect("cannot create a scratch directory under .work/")
}

/// Copies a closed rocksdb directory (flat: no sub-directories are created by the stores).
pub fn copy_dir(from: &Path, to: &Path) {
    std::fs::create_dir_all(to).expect("mkdir");
    for e in std::fs::read_dir(from).expect("read_dir") {
        let e = e.expect("dirent");
        let ft = e.file_type().expect("file type");
        if ft.is_dir() {
            copy_dir(&e.path(), &to.join(e.file_name()));
        } else if e.file_name() != "LOCK" {
            std::fs::copy(e.path(), to.join(e.file_name())).expect("copy");
        }
    }
}
