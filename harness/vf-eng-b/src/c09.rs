//! C09 Resources cannot vanish or be duplicated inside a transaction.

use crate::judge::*;
use crate::mgen::*;
use crate::session::*;
use vf_core::{Check, Gen, Outcome, Part};
use vf_world::*;

pub fn model_case(g: &mut Gen, prof: &Profile, prefix: &'static str, max_tx: u64, nontrivial: fn(&Plan, Outcome3) -> bool) -> Outcome {
    with_world(WORLD_KEY, no_genesis, build, |w| {
        let mut s = Session::new(w);
        let n = 1 + g.below(max_tx);
        let mut rendered = Vec::new();
        for _ in 0..n {
            let (plan, obs, led) = s.step(g, prof);
            let outcome = match check_outcome(&plan, &obs, prefix) {
                Ok(o) => o,
                Err(f) => return Outcome::Fail(f),
            };
            if let Err(f) = check_accounts(&plan, &obs, &s.wd, &led, s.w.db(), prefix) {
                return Outcome::Fail(f);
            }
            if let Err(f) = conservation(&obs, Some(&ModelMintBurn::of(&plan, &s.wd)).filter(|_| outcome == Outcome3::Success)) {
                return Outcome::Fail(f);
            }
            label_plan(g, &plan, outcome);
            g.count("instructions", plan.ins.len() as u64);
            g.count("transactions", 1);
            if nontrivial(&plan, outcome) {
                g.nontrivial();
            }
            if g.want_sample() {
                rendered.push(format!("{} ; actual: {}", plan.render(), obs.run.outcome_string()));
            }
        }
        g.sample(|| rendered.join(" || "));
        Outcome::Pass
    })
}

fn nontrivial(plan: &Plan, _o: Outcome3) -> bool {
    plan.ins.len() >= 6 && plan.exact_take_followed
}

pub fn check() -> Check {
    Check::new(
        "C09",
        "Resources cannot vanish or be duplicated inside a transaction",
        "1-3 generated manifests per case on the standard world (reset per case): withdraw / take (amount, ids, all, exact-balance) / return / assert (amount, ids, any) / burn / mint / recall / proofs / deposits / ENTIRE_WORKTOP, with deliberately faulty operands (too much, off-grid, stale bucket or proof ids, unknown ids) and deliberately unfinished manifests. Oracle: worktop / bucket / proof / vault model predicting success or the failure class, and the committed content of every account vault. Non-trivial = a manifest of >= 6 instructions in which an exact-balance take (the worktop's bucket is moved out) is followed by another worktop operation.",
    )
    .part(Part::new("worktop", 6000, 300_000, 600, |g| model_case(g, &Profile::worktop(), "C09", 3, nontrivial)))
    .min_nontrivial_pct(10.0)
}
