//! Observation and oracles shared by C03 / C04 / C09 / C10: event decoding, per-transaction
//! conservation from raw vault substates, comparison of the model's predictions with the ledger.

use crate::mgen::*;
use scrypto_test::prelude::*;
use std::collections::{BTreeMap, BTreeSet};
use vf_core::Failure;
use vf_world::*;

pub fn fail(sig: &str, msg: String) -> Failure {
    Failure { signature: sig.to_string(), message: msg }
}

#[derive(ScryptoSbor)]
struct AmountEv {
    amount: Decimal,
}
#[derive(ScryptoSbor)]
struct IdsEv {
    ids: Vec<NonFungibleLocalId>,
}

#[derive(Clone, Copy, Debug, PartialEq, Eq)]
pub enum VK {
    LockFee,
    PayFee,
    Withdraw,
    Deposit,
    Recall,
}

#[derive(Clone, Debug)]
pub enum Ev {
    MintF(ResourceAddress, A),
    BurnF(ResourceAddress, A),
    MintN(ResourceAddress, Vec<Id>),
    BurnN(ResourceAddress, Vec<Id>),
    VaultF(NodeId, VK, A),
    VaultN(NodeId, VK, Vec<Id>),
}

/// Decode a resource-related event; None for everything else. Err for an event with a known name
/// whose payload does not decode.
pub fn decode_event(ev: &(EventTypeIdentifier, Vec<u8>)) -> Result<Option<Ev>, String> {
    let (EventTypeIdentifier(emitter, name), data) = ev;
    let Emitter::Method(node, ModuleId::Main) = emitter else { return Ok(None) };
    let amount = || scrypto_decode::<AmountEv>(data).map(|e| atto(e.amount)).map_err(|e| format!("event {} of {:?}: {:?}", name, node, e));
    let ids = || scrypto_decode::<IdsEv>(data).map(|e| e.ids).map_err(|e| format!("event {} of {:?}: {:?}", name, node, e));
    match node.entity_type() {
        Some(EntityType::GlobalFungibleResourceManager) => {
            let res = ResourceAddress::try_from(*node).unwrap();
            match name.as_str() {
                "MintFungibleResourceEvent" => Ok(Some(Ev::MintF(res, amount()?))),
                "BurnFungibleResourceEvent" => Ok(Some(Ev::BurnF(res, amount()?))),
                _ => Ok(None),
            }
        }
        Some(EntityType::GlobalNonFungibleResourceManager) => {
            let res = ResourceAddress::try_from(*node).unwrap();
            match name.as_str() {
                "MintNonFungibleResourceEvent" => Ok(Some(Ev::MintN(res, ids()?))),
                "BurnNonFungibleResourceEvent" => Ok(Some(Ev::BurnN(res, ids()?))),
                _ => Ok(None),
            }
        }
        Some(EntityType::InternalFungibleVault) => {
            let k = match name.as_str() {
                "LockFeeEvent" => VK::LockFee,
                "PayFeeEvent" => VK::PayFee,
                "WithdrawEvent" => VK::Withdraw,
                "DepositEvent" => VK::Deposit,
                "RecallEvent" => VK::Recall,
                _ => return Ok(None),
            };
            Ok(Some(Ev::VaultF(*node, k, amount()?)))
        }
        Some(EntityType::InternalNonFungibleVault) => {
            let k = match name.as_str() {
                "WithdrawEvent" => VK::Withdraw,
                "DepositEvent" => VK::Deposit,
                "RecallEvent" => VK::Recall,
                _ => return Ok(None),
            };
            Ok(Some(Ev::VaultN(*node, k, ids()?)))
        }
        _ => Ok(None),
    }
}

/// What the events of ONE transaction say.
#[derive(Default, Debug)]
pub struct TxEvents {
    pub minted_f: BTreeMap<ResourceAddress, A>,
    pub burned_f: BTreeMap<ResourceAddress, A>,
    pub minted_n: BTreeMap<ResourceAddress, Vec<Id>>,
    pub burned_n: BTreeMap<ResourceAddress, Vec<Id>>,
    pub pay_fee: BTreeMap<NodeId, A>,
    pub n_events: usize,
}

impl TxEvents {
    pub fn of(events: &[(EventTypeIdentifier, Vec<u8>)]) -> Result<TxEvents, Failure> {
        let mut t = TxEvents::default();
        for e in events {
            match decode_event(e).map_err(|m| fail("resource event payload does not decode", m))? {
                Some(Ev::MintF(r, a)) => *t.minted_f.entry(r).or_insert(0) += a,
                Some(Ev::BurnF(r, a)) => *t.burned_f.entry(r).or_insert(0) += a,
                Some(Ev::MintN(r, ids)) => t.minted_n.entry(r).or_default().extend(ids),
                Some(Ev::BurnN(r, ids)) => t.burned_n.entry(r).or_default().extend(ids),
                Some(Ev::VaultF(v, VK::PayFee, a)) => *t.pay_fee.entry(v).or_insert(0) += a,
                Some(_) => {}
                None => continue,
            }
            t.n_events += 1;
        }
        Ok(t)
    }
}

/// A model fed ONLY with events (C04): supplies and the content of every vault.
#[derive(Default, Clone, Debug)]
pub struct Replay {
    pub supply_f: BTreeMap<ResourceAddress, A>,
    pub live_n: BTreeMap<ResourceAddress, Ids>,
    pub vault_f: BTreeMap<NodeId, A>,
    pub vault_n: BTreeMap<NodeId, Ids>,
    pub problems: Vec<String>,
    pub applied: usize,
}

impl Replay {
    pub fn apply(&mut self, ev: &(EventTypeIdentifier, Vec<u8>)) {
        let d = match decode_event(ev) {
            Ok(Some(d)) => d,
            Ok(None) => return,
            Err(m) => {
                self.problems.push(m);
                return;
            }
        };
        self.applied += 1;
        match d {
            Ev::MintF(r, a) => *self.supply_f.entry(r).or_insert(0) += a,
            Ev::BurnF(r, a) => {
                let e = self.supply_f.entry(r).or_insert(0);
                *e -= a;
                if *e < 0 {
                    self.problems.push(format!("events burn more of {:?} than was minted", r));
                }
            }
            Ev::MintN(r, ids) => {
                let s = self.live_n.entry(r).or_default();
                for id in ids {
                    if !s.insert(id.clone()) {
                        self.problems.push(format!("mint event for {:?}:{} which is already live", r, id));
                    }
                }
            }
            Ev::BurnN(r, ids) => {
                let s = self.live_n.entry(r).or_default();
                for id in ids {
                    if !s.remove(&id) {
                        self.problems.push(format!("burn event for {:?}:{} which is not live", r, id));
                    }
                }
            }
            Ev::VaultF(v, k, a) => {
                let e = self.vault_f.entry(v).or_insert(0);
                match k {
                    VK::Deposit => *e += a,
                    VK::Withdraw | VK::Recall | VK::PayFee => *e -= a,
                    VK::LockFee => {}
                }
                if *e < 0 {
                    self.problems.push(format!("events take vault {:?} below zero", v));
                }
            }
            Ev::VaultN(v, k, ids) => {
                let s = self.vault_n.entry(v).or_default();
                for id in ids {
                    match k {
                        VK::Deposit => {
                            if !s.insert(id.clone()) {
                                self.problems.push(format!("deposit event of {} into vault {:?} which already holds it", id, v));
                            }
                        }
                        _ => {
                            if !s.remove(&id) {
                                self.problems.push(format!("withdraw/recall event of {} from vault {:?} which does not hold it", id, v));
                            }
                        }
                    }
                }
            }
        }
    }

    /// Differences between the event model and the scanned ledger.
    pub fn diff(&self, t: &Totals) -> Vec<String> {
        let mut out = self.problems.clone();
        for (v, (res, bal)) in &t.fungible_vaults {
            let e = self.vault_f.get(v).copied().unwrap_or(0);
            if e != atto(*bal) {
                out.push(format!("vault {:?} of {:?}: stored {} but events say {}", v, res, bal, show(e)));
            }
        }
        for v in self.vault_f.keys() {
            if !t.fungible_vaults.contains_key(v) && self.vault_f[v] != 0 {
                out.push(format!("events mention fungible vault {:?} ({}) which is not in the ledger", v, show(self.vault_f[v])));
            }
        }
        for (v, (res, _, ids)) in &t.non_fungible_vaults {
            let empty = Ids::new();
            let e = self.vault_n.get(v).unwrap_or(&empty);
            if e != ids {
                out.push(format!("nf vault {:?} of {:?}: stored {} ids but events say {} ids", v, res, ids.len(), e.len()));
            }
        }
        for v in self.vault_n.keys() {
            if !t.non_fungible_vaults.contains_key(v) && !self.vault_n[v].is_empty() {
                out.push(format!("events mention nf vault {:?} which is not in the ledger", v));
            }
        }
        for (res, supply) in &t.supply {
            if res.is_fungible() {
                let e = self.supply_f.get(res).copied().unwrap_or(0);
                if let Some(s) = supply {
                    if atto(*s) != e {
                        out.push(format!("resource {:?}: stored total supply {} but mint/burn events say {}", res, s, show(e)));
                    }
                }
                let held = t.fungible_vault_sum.get(res).map(|d| atto(*d)).unwrap_or(0);
                if held != e {
                    out.push(format!("resource {:?}: vaults hold {} but mint/burn events say {}", res, show(held), show(e)));
                }
            } else {
                let empty = Ids::new();
                let e = self.live_n.get(res).unwrap_or(&empty);
                if let Some(s) = supply {
                    if *s != Decimal::from(e.len() as u64) {
                        out.push(format!("resource {:?}: stored total supply {} but mint/burn events leave {} ids", res, s, e.len()));
                    }
                }
                let held = t.non_fungible_ids.get(res).unwrap_or(&empty);
                if held != e {
                    out.push(format!("resource {:?}: vaults hold {} ids but mint/burn events leave {} ids", res, held.len(), e.len()));
                }
            }
        }
        out
    }
}

/// Everything observed about one executed transaction.
pub struct Obs {
    pub before: Totals,
    pub after: Totals,
    pub run: Run,
}

pub fn execute(w: &mut World, before: Totals, manifest: TransactionManifestV1, proofs: Vec<NonFungibleGlobalId>) -> Obs {
    let run = w.run(manifest, proofs);
    let after = Totals::scan(w.db());
    Obs { before, after, run }
}

#[derive(Clone, Copy, Debug, PartialEq, Eq)]
pub enum Outcome3 {
    Success,
    Failure,
    Rejected,
}

impl Obs {
    pub fn outcome(&self) -> Result<Outcome3, Failure> {
        if let Some(p) = &self.run.panic {
            return Err(fail("host panic while executing a generated transaction", p.clone()));
        }
        Ok(match &self.run.receipt().result {
            TransactionResult::Commit(c) => match c.outcome {
                TransactionOutcome::Success(_) => Outcome3::Success,
                TransactionOutcome::Failure(_) => Outcome3::Failure,
            },
            _ => Outcome3::Rejected,
        })
    }
}

fn sum_of(t: &Totals, r: &ResourceAddress) -> A {
    t.fungible_vault_sum.get(r).map(|d| atto(*d)).unwrap_or(0)
}

/// What a manifest model says about mints and burns, by resource address.
#[derive(Default, Debug)]
pub struct ModelMintBurn {
    pub f: BTreeMap<ResourceAddress, A>,
    /// (minted known, minted anon, burned known, burned anon)
    pub n: BTreeMap<ResourceAddress, (Ids, u32, Ids, u32)>,
    /// resources the model covers (every other resource: the model says "nothing minted or burnt")
    pub covered: BTreeSet<ResourceAddress>,
}

impl ModelMintBurn {
    pub fn of(plan: &Plan, wd: &Wd) -> ModelMintBurn {
        let mut m = ModelMintBurn::default();
        for r in &wd.res {
            m.covered.insert(r.addr);
        }
        for (r, a) in &plan.minted_f {
            *m.f.entry(wd.res[*r].addr).or_insert(0) += a;
        }
        for (r, a) in &plan.burned_f {
            *m.f.entry(wd.res[*r].addr).or_insert(0) -= a;
        }
        for (r, h) in &plan.minted_n {
            let e = m.n.entry(wd.res[*r].addr).or_default();
            e.0 = h.known.clone();
            e.1 = h.anon;
        }
        for (r, h) in &plan.burned_n {
            let e = m.n.entry(wd.res[*r].addr).or_default();
            e.2 = h.known.clone();
            e.3 = h.anon;
        }
        m
    }
    /// a transaction that mints and burns nothing of the covered resources
    pub fn nothing(covered: impl IntoIterator<Item = ResourceAddress>) -> ModelMintBurn {
        ModelMintBurn { covered: covered.into_iter().collect(), ..Default::default() }
    }
}

pub struct ConservationStats {
    pub resources_changed: usize,
    pub minted_or_burned: bool,
    pub fee_burn: A,
}

/// C03: for a committed transaction, per resource, Σ vault deltas (raw substates) == minted − burned,
/// where minted/burned come from (i) the model (when given), (ii) the events, (iii) TotalSupply.
pub fn conservation(obs: &Obs, model: Option<&ModelMintBurn>) -> Result<ConservationStats, Failure> {
    let receipt = obs.run.receipt();
    let Some(commit) = obs.run.commit() else {
        // rejected / aborted: nothing may have changed
        if obs.before != obs.after {
            return Err(fail("rejected transaction changed vaults or supplies", format!("{}", obs.run.outcome_string())));
        }
        return Ok(ConservationStats { resources_changed: 0, minted_or_burned: false, fee_burn: 0 });
    };
    if !receipt.transaction_costing_parameters.free_credit_in_xrd.is_zero() {
        return Err(fail("harness: judged receipt used free credit", format!("{}", receipt.transaction_costing_parameters.free_credit_in_xrd)));
    }
    let ev = TxEvents::of(&commit.application_events)?;
    let ctx = || obs.run.outcome_string();
    let mut problems = obs.after.supply_problems();
    if !problems.is_empty() {
        problems.truncate(4);
        return Err(fail("after a committed transaction total supply != sum of vaults (or a vault is malformed)", format!("{:?}; {}", problems, ctx())));
    }
    let mut resources: BTreeSet<ResourceAddress> = BTreeSet::new();
    resources.extend(obs.before.supply.keys().copied());
    resources.extend(obs.after.supply.keys().copied());
    resources.extend(obs.after.fungible_vault_sum.keys().copied());
    resources.extend(obs.after.non_fungible_ids.keys().copied());
    resources.extend(ev.minted_f.keys().copied());
    resources.extend(ev.burned_f.keys().copied());
    resources.extend(ev.minted_n.keys().copied());
    resources.extend(ev.burned_n.keys().copied());
    let to_burn = atto(commit.fee_destination.to_burn);
    let mut changed = 0usize;
    let mut mb = false;
    for r in &resources {
        if r.is_fungible() {
            let delta = sum_of(&obs.after, r) - sum_of(&obs.before, r);
            let ev_net = ev.minted_f.get(r).copied().unwrap_or(0) - ev.burned_f.get(r).copied().unwrap_or(0);
            if delta != 0 {
                changed += 1;
            }
            if ev.minted_f.contains_key(r) || ev.burned_f.contains_key(r) {
                mb = mb || *r != XRD;
            }
            if delta != ev_net {
                return Err(fail(
                    "fungible resource: net change of all vault balances != minted - burned (events)",
                    format!("resource {:?}: vaults changed by {}, events say {}; {}", r, show(delta), show(ev_net), ctx()),
                ));
            }
            let s0 = obs.before.supply.get(r).cloned().flatten();
            let s1 = obs.after.supply.get(r).cloned().flatten();
            if let Some(s1) = s1 {
                let sd = atto(s1) - s0.map(atto).unwrap_or(0);
                if sd != delta {
                    return Err(fail(
                        "fungible resource: recorded total supply did not change by minted - burned",
                        format!("resource {:?}: supply changed by {}, vaults by {}; {}", r, show(sd), show(delta), ctx()),
                    ));
                }
            }
            if let Some(m) = model {
                if m.covered.contains(r) {
                    let mut want = m.f.get(r).copied().unwrap_or(0);
                    if *r == XRD {
                        want -= to_burn;
                    }
                    if want != delta {
                        return Err(fail(
                            "fungible resource: net change of all vault balances != minted - burned (manifest model)",
                            format!("resource {:?}: vaults changed by {}, manifest asked for {} (incl. fee burn {}); {}", r, show(delta), show(want), show(to_burn), ctx()),
                        ));
                    }
                }
            }
            if *r == XRD {
                let ev_burn = ev.burned_f.get(r).copied().unwrap_or(0);
                let ev_mint = ev.minted_f.get(r).copied().unwrap_or(0);
                // user transactions cannot mint XRD; the only burn is the fee burn
                if model.is_some() && (ev_burn != to_burn || ev_mint != 0) {
                    return Err(fail(
                        "XRD: burn/mint events differ from the burnt share of the fee",
                        format!("burn events {}, mint events {}, fee_destination.to_burn {}; {}", show(ev_burn), show(ev_mint), show(to_burn), ctx()),
                    ));
                }
            }
        } else {
            let empty = Ids::new();
            let b = obs.before.non_fungible_ids.get(r).unwrap_or(&empty);
            let a = obs.after.non_fungible_ids.get(r).unwrap_or(&empty);
            let added: Ids = a.difference(b).cloned().collect();
            let removed: Ids = b.difference(a).cloned().collect();
            let minted_v = ev.minted_n.get(r).cloned().unwrap_or_default();
            let burned_v = ev.burned_n.get(r).cloned().unwrap_or_default();
            let minted: Ids = minted_v.iter().cloned().collect();
            let burned: Ids = burned_v.iter().cloned().collect();
            if !added.is_empty() || !removed.is_empty() {
                changed += 1;
            }
            if !minted_v.is_empty() || !burned_v.is_empty() {
                mb = true;
            }
            if minted.len() != minted_v.len() || burned.len() != burned_v.len() {
                return Err(fail("non-fungible resource: an id is minted or burnt twice in one transaction", format!("resource {:?}; {}", r, ctx())));
            }
            if let Some(id) = minted.iter().find(|id| b.contains(*id)) {
                return Err(fail("non-fungible resource: mint event for an id that already was in a vault", format!("resource {:?} id {}; {}", r, id, ctx())));
            }
            let want_added: Ids = minted.difference(&burned).cloned().collect();
            let want_removed: Ids = burned.difference(&minted).cloned().collect();
            if added != want_added || removed != want_removed {
                return Err(fail(
                    "non-fungible resource: ids added to / removed from vaults != minted / burnt ids (events)",
                    format!(
                        "resource {:?}: vaults gained {:?} lost {:?}; events minted {:?} burnt {:?}; {}",
                        r, added, removed, minted, burned, ctx()
                    ),
                ));
            }
            let s0 = obs.before.supply.get(r).cloned().flatten();
            let s1 = obs.after.supply.get(r).cloned().flatten();
            if let Some(s1) = s1 {
                let sd = atto(s1) - s0.map(atto).unwrap_or(0);
                let want = (minted.len() as A - burned.len() as A) * ONE;
                if sd != want {
                    return Err(fail(
                        "non-fungible resource: recorded total supply did not change by minted - burned",
                        format!("resource {:?}: supply changed by {}, minted {} burnt {}; {}", r, show(sd), minted.len(), burned.len(), ctx()),
                    ));
                }
            }
            if let Some(m) = model {
                if m.covered.contains(r) {
                    let none = (Ids::new(), 0u32, Ids::new(), 0u32);
                    let (mk, ma, bk, ba) = m.n.get(r).unwrap_or(&none);
                    let ok = mk.is_subset(&minted) && minted.len() == mk.len() + *ma as usize && bk.is_subset(&burned) && burned.len() == bk.len() + *ba as usize;
                    if !ok {
                        return Err(fail(
                            "non-fungible resource: minted / burnt ids differ from what the manifest asked for",
                            format!(
                                "resource {:?}: manifest minted {:?}+{} burnt {:?}+{}; events minted {:?} burnt {:?}; {}",
                                r, mk, ma, bk, ba, minted, burned, ctx()
                            ),
                        ));
                    }
                }
            }
        }
    }
    // consistency of the receipt's own summary with the raw substates (not the oracle)
    let mut vaults: BTreeSet<NodeId> = BTreeSet::new();
    vaults.extend(obs.before.fungible_vaults.keys().copied());
    vaults.extend(obs.after.fungible_vaults.keys().copied());
    for v in &vaults {
        let d = obs.after.fungible_vaults.get(v).map(|x| atto(x.1)).unwrap_or(0) - obs.before.fungible_vaults.get(v).map(|x| atto(x.1)).unwrap_or(0);
        let reported = match commit.state_update_summary.vault_balance_changes.get(v) {
            Some((_, BalanceChange::Fungible(x))) => atto(*x),
            Some(_) => {
                return Err(fail("receipt vault_balance_changes reports a non-fungible change for a fungible vault", format!("{:?}; {}", v, ctx())));
            }
            None => 0,
        };
        if d != reported {
            return Err(fail(
                "receipt vault_balance_changes disagrees with the vault balance substates",
                format!("vault {:?}: substates changed by {}, receipt says {}; {}", v, show(d), show(reported), ctx()),
            ));
        }
    }
    let mut nvaults: BTreeSet<NodeId> = BTreeSet::new();
    nvaults.extend(obs.before.non_fungible_vaults.keys().copied());
    nvaults.extend(obs.after.non_fungible_vaults.keys().copied());
    for v in &nvaults {
        let empty = Ids::new();
        let b = obs.before.non_fungible_vaults.get(v).map(|x| &x.2).unwrap_or(&empty);
        let a = obs.after.non_fungible_vaults.get(v).map(|x| &x.2).unwrap_or(&empty);
        let added: Ids = a.difference(b).cloned().collect();
        let removed: Ids = b.difference(a).cloned().collect();
        let (ra, rr) = match commit.state_update_summary.vault_balance_changes.get(v) {
            Some((_, BalanceChange::NonFungible { added, removed })) => (added.clone(), removed.clone()),
            Some(_) => {
                return Err(fail("receipt vault_balance_changes reports a fungible change for a non-fungible vault", format!("{:?}; {}", v, ctx())));
            }
            None => (Ids::new(), Ids::new()),
        };
        if added != ra || removed != rr {
            return Err(fail(
                "receipt vault_balance_changes disagrees with the non-fungible vault substates",
                format!("vault {:?}: substates +{:?} -{:?}, receipt +{:?} -{:?}; {}", v, added, removed, ra, rr, ctx()),
            ));
        }
    }
    Ok(ConservationStats { resources_changed: changed, minted_or_burned: mb, fee_burn: to_burn })
}

/// C09 / C10: predicted success <=> actual success (and the failure is of the predicted class).
pub fn check_outcome(plan: &Plan, obs: &Obs, prefix: &str) -> Result<Outcome3, Failure> {
    let actual = obs.outcome()?;
    let ctx = || format!("{} ; actual: {}", plan.render(), obs.run.outcome_string());
    match (&plan.predicted, actual) {
        (Ok(()), Outcome3::Success) => Ok(actual),
        (Ok(()), _) => Err(fail(&format!("{}: manifest that must succeed did not", prefix), ctx())),
        (Err((_, why)), Outcome3::Success) => Err(fail(&format!("{}: manifest that must fail ({}) succeeded", prefix, why), ctx())),
        (Err((_, why)), Outcome3::Rejected) => {
            if plan.fee_ok {
                Err(fail(&format!("{}: failing manifest with a paid fee was rejected instead of committed as failure", prefix), ctx()))
            } else {
                let _ = why;
                Ok(actual)
            }
        }
        (Err((_, why)), Outcome3::Failure) => {
            let acc = acceptable_errors(why);
            let text = format!("{:?}", obs.run.failure().unwrap());
            if !acc.is_empty() && !acc.iter().any(|s| text.contains(s)) {
                return Err(fail(&format!("{}: manifest failed, but not for the predicted reason ({})", prefix, why), ctx()));
            }
            Ok(actual)
        }
    }
}

/// Committed vault contents of the accounts == model (success), or unchanged but for fees (failure).
pub fn check_accounts(plan: &Plan, obs: &Obs, wd: &Wd, led: &Ledger, db: &impl SubstateDatabase, prefix: &str) -> Result<(), Failure> {
    let actual = obs.outcome()?;
    let ctx = || format!("{} ; actual: {}", plan.render(), obs.run.outcome_string());
    let paid = |v: &NodeId| -> A { obs.run.commit().and_then(|c| c.fee_source.paying_vaults.get(v)).map(|d| atto(*d)).unwrap_or(0) };
    for ai in 0..wd.accounts.len() {
        for ri in 0..wd.res.len() {
            let vault = account_vault(db, &wd.accounts[ai].0, &wd.res[ri].addr);
            let success = actual == Outcome3::Success;
            if wd.res[ri].is_f() {
                let have = vault.and_then(|v| obs.after.fungible_vaults.get(&v)).map(|x| atto(x.1));
                let before = led.f.get(&(ai, ri)).copied();
                let mut want = if success { plan.expect_f.get(&(ai, ri)).copied().or(before) } else { before };
                if let (Some(w), Some(v)) = (want.as_mut(), vault) {
                    *w -= paid(&v);
                }
                if have != want {
                    return Err(fail(
                        &format!("{}: committed fungible vault balance differs from the model", prefix),
                        format!("account {} resource r{}: ledger {:?}, model {:?} (before {:?}); {}", ai, ri, have.map(show), want.map(show), before.map(show), ctx()),
                    ));
                }
            } else {
                let have = vault.and_then(|v| obs.after.non_fungible_vaults.get(&v)).map(|x| x.2.clone());
                let before = led.n.get(&(ai, ri)).cloned();
                let want: Option<NfHold> =
                    if success { plan.expect_n.get(&(ai, ri)).cloned().or(before.clone().map(|k| NfHold { known: k, anon: 0 })) } else { before.clone().map(|k| NfHold { known: k, anon: 0 }) };
                let ok = match (&have, &want) {
                    (None, None) => true,
                    (Some(h), Some(w)) => w.known.is_subset(h) && h.len() == w.count(),
                    _ => false,
                };
                if !ok {
                    return Err(fail(
                        &format!("{}: committed non-fungible vault content differs from the model", prefix),
                        format!("account {} resource r{}: ledger {:?}, model {:?}; {}", ai, ri, have, want, ctx()),
                    ));
                }
            }
        }
    }
    Ok(())
}
